
// ---- appended by /verif/vx/kani_engine.py (never part of /repo) ------------------------------------------
#[cfg(kani)]
mod vx_kani_policy {
    use super::policy::*;

    // Loop-free functions over machine integers: these harnesses cover the whole input domain stated in the assumptions
    // (sizes up to isize::MAX, as for every Rust allocation), so a pass is a complete proof of the documented formula and a
    // failure comes with concrete arguments.  usize::BITS is 64 on the verified target.
    const MAX: usize = isize::MAX as usize;

    #[kani::proof]
    fn std_policy_formula() {
        let cur: usize = kani::any();
        kani::assume(cur <= MAX / 2);
        let r = StdPolicy.grow_to(cur);
        let want = if cur < (1 << 23) { cur * 2 } else { cur + (1 << 23) };
        assert!(r == Some(want));
    }

    #[kani::proof]
    fn double_until_formula() {
        let cur: usize = kani::any();
        let du: usize = kani::any();
        kani::assume(cur <= MAX / 2 && du <= MAX / 2);
        let r = DoubleUntil(du).grow_to(cur);
        let want = if cur < du { cur * 2 } else { cur + du };
        assert!(r == Some(want));
    }

    #[kani::proof]
    fn double_until_limited_formula() {
        let cur: usize = kani::any();
        let du: usize = kani::any();
        let limit: usize = kani::any();
        kani::assume(cur <= MAX / 2 && du <= MAX / 2);
        let r = DoubleUntilLimited::new(du, limit).grow_to(cur);
        let want = if cur < du { cur * 2 } else { cur + du };
        if want <= limit {
            assert!(r == Some(want));
        } else {
            assert!(r.is_none());
        }
    }
}
