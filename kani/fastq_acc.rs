
// ---- appended to src/fastq.rs by /verif/vx/kani_engine.py (never part of /repo) ------------------------------
#[cfg(kani)]
mod vx_kani_fastq_acc {
    use super::*;

    fn no_lf(buf: &[u8], lo: usize, hi: usize) -> bool {
        let mut i = lo;
        while i < hi {
            if buf[i] == b'\n' {
                return false;
            }
            i += 1;
        }
        true
    }
    fn trimmed_end(buf: &[u8], lo: usize, hi: usize) -> usize {
        if hi > lo && buf[hi - 1] == b'\r' { hi - 1 } else { hi }
    }
    fn same(r: &[u8], buf: &[u8], lo: usize, e: usize) {
        assert!(r.len() == e - lo);
        let mut i = 0;
        while i < r.len() {
            assert!(r[i] == buf[lo + i]);
            i += 1;
        }
    }

    /// The three FASTQ accessors return the line between the stored offsets without its LF and without exactly one trailing CR
    /// (the contract of `BufferPosition::{head,seq,qual}` in contracts/40_fastq.rs, proved there for every buffer).
    /// BOUNDED: one record laid out as the reader lays it out (`@`head LF seq LF `+`sep LF qual) in a buffer of 12 bytes, every
    /// content and every offset tuple of that shape, lines of equal trimmed length, so that a failing case is an input file.
    #[kani::proof]
    #[kani::unwind(14)]
    fn fastq_accessors_trim_one_cr() {
        const N: usize = 12;
        let buf: [u8; N] = kani::any();
        let seq: usize = kani::any();
        let sep: usize = kani::any();
        let qual: usize = kani::any();
        let p1: usize = kani::any();
        kani::assume(seq <= N && sep <= N && qual <= N && p1 <= N);
        kani::assume(2 <= seq && seq + 1 <= sep && sep + 2 <= qual && qual <= p1);
        kani::assume(buf[0] == b'@' && buf[seq - 1] == b'\n' && buf[sep - 1] == b'\n' && buf[sep] == b'+' && buf[qual - 1] == b'\n');
        kani::assume(no_lf(&buf, 1, seq - 1) && no_lf(&buf, seq, sep - 1) && no_lf(&buf, sep, qual - 1) && no_lf(&buf, qual, p1));
        let (es, eq) = (trimmed_end(&buf, seq, sep - 1), trimmed_end(&buf, qual, p1));
        kani::assume(es - seq == eq - qual);
        let bp = BufferPosition { pos: (0, p1), seq, sep, qual };
        same(bp.head(&buf), &buf, 1, trimmed_end(&buf, 1, seq - 1));
        same(bp.seq(&buf), &buf, seq, es);
        same(bp.qual(&buf), &buf, qual, eq);
    }
}
