
// ---- appended to src/fasta.rs by /verif/vx/kani_engine.py (never part of /repo) ------------------------------
#[cfg(kani)]
mod vx_kani_fasta_acc {
    use super::*;

    fn no_lf(buf: &[u8], lo: usize, hi: usize) -> bool {
        let mut i = lo;
        while i < hi {
            if buf[i] == b'\n' {
                return false;
            }
            i += 1;
        }
        true
    }
    fn trimmed_end(buf: &[u8], lo: usize, hi: usize) -> usize {
        if hi > lo && buf[hi - 1] == b'\r' { hi - 1 } else { hi }
    }

    /// `RefRecord::owned_seq` (hence `to_owned_record().seq`, multi-line `full_seq`, the items of `records()`) is the concatenation of
    /// the sequence lines, each without its LF and without exactly one trailing CR, and `head()` is the trimmed header line
    /// (contracts/50_fasta.rs, proved there for every buffer and any number of lines).
    /// BOUNDED: one record with two sequence lines laid out as the reader lays it out (`>`head LF line LF line) in a buffer of
    /// 8 bytes, every content and every offset triple of that shape, so that a failing case is an input file.
    #[kani::proof]
    #[kani::unwind(12)]
    fn fasta_owned_seq_two_lines() {
        const N: usize = 8;
        let buf: [u8; N] = kani::any();
        let a: usize = kani::any();
        let b: usize = kani::any();
        let c: usize = kani::any();
        kani::assume(c <= N && b < c && a < b && 1 <= a);
        kani::assume(b + 1 < c);
        kani::assume(buf[0] == b'>' && buf[a] == b'\n' && buf[b] == b'\n' && buf[a + 1] != b'>' && buf[b + 1] != b'>');
        kani::assume(no_lf(&buf, 1, a) && no_lf(&buf, a + 1, b) && no_lf(&buf, b + 1, c));
        let bp = BufferPosition { start: 0, seq_pos: vec![a, b, c] };
        let rec = RefRecord { buffer: &buf, buf_pos: &bp };
        let eh = trimmed_end(&buf, 1, a);
        let h = rec.head();
        assert!(h.len() == eh - 1);
        let e1 = trimmed_end(&buf, a + 1, b);
        let e2 = trimmed_end(&buf, b + 1, c);
        let n1 = e1 - (a + 1);
        let s = rec.owned_seq();
        assert!(s.len() == n1 + (e2 - (b + 1)));
        let mut i = 0;
        while i < s.len() {
            if i < n1 {
                assert!(s[i] == buf[a + 1 + i]);
            } else {
                assert!(s[i] == buf[b + 1 + (i - n1)]);
            }
            i += 1;
        }
    }
}
