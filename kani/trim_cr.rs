
// ---- appended by /verif/vx/kani_engine.py (never part of /repo) ------------------------------------------
#[cfg(kani)]
mod vx_kani_trim_cr {
    use super::*;

    /// Contract assumed in the Verus file for `trim_cr` (contracts/30_lib.rs):  r@ == trim(line@),
    /// i.e. one trailing CR is removed, nothing else changes, and the result is a prefix of the argument.
    /// BOUNDED: slices of length 0..=8 with arbitrary content (the function only inspects the last byte).
    #[kani::proof]
    #[kani::unwind(10)]
    fn trim_cr_contract() {
        const N: usize = 8;
        let buf: [u8; N] = kani::any();
        let len: usize = kani::any();
        kani::assume(len <= N);
        let line = &buf[..len];
        let r = trim_cr(line);
        if len > 0 && line[len - 1] == b'\r' {
            assert!(r.len() == len - 1);
        } else {
            assert!(r.len() == len);
        }
        // the result is a prefix of the argument (same start, so same bytes)
        assert!(r.as_ptr() == line.as_ptr());
        let mut i = 0;
        while i < r.len() {
            assert!(r[i] == line[i]);
            i += 1;
        }
    }
}
