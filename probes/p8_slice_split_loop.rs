use vstd::prelude::*;
verus! {

#[verifier::external_type_specification]
#[verifier::external_body]
#[verifier::accept_recursive_types(T)]
#[verifier::accept_recursive_types(P)]
pub struct ExSplit<'a, T: 'a, P: FnMut(&T) -> bool>(core::slice::Split<'a, T, P>);

pub uninterp spec fn split_rest<'a, T, P: FnMut(&T) -> bool>(s: &core::slice::Split<'a, T, P>) -> Seq<T>;
pub uninterp spec fn split_done<'a, T, P: FnMut(&T) -> bool>(s: &core::slice::Split<'a, T, P>) -> bool;
pub uninterp spec fn split_pred<'a, T, P: FnMut(&T) -> bool>(s: &core::slice::Split<'a, T, P>) -> P;

pub open spec fn is_sep<T, P: FnMut(&T) -> bool>(p: P, x: T) -> bool { call_ensures(p, (&x,), true) }

// index of first separator in s at or after i, else s.len()
pub open spec fn first_sep<T, P: FnMut(&T) -> bool>(p: P, s: Seq<T>, i: int) -> int
    decreases s.len() - i
{
    if i < 0 || i >= s.len() { s.len() as int } else if is_sep(p, s[i]) { i } else { first_sep(p, s, i + 1) }
}

pub proof fn lemma_first_sep_bounds<T, P: FnMut(&T) -> bool>(p: P, s: Seq<T>, i: int)
    requires 0 <= i <= s.len()
    ensures i <= first_sep(p, s, i) <= s.len()
    decreases s.len() - i
{
    if i < s.len() && !is_sep(p, s[i]) { lemma_first_sep_bounds(p, s, i + 1); }
}

pub assume_specification<T, F: FnMut(&T) -> bool> [ <[T]>::split ] (s: &[T], pred: F) -> (r: core::slice::Split<'_, T, F>)
    ensures split_rest(&r) == s@, !split_done(&r), split_pred(&r) == pred;

pub assume_specification<'a, T, P: FnMut(&T) -> bool> [ <core::slice::Split<'a, T, P> as Iterator>::next ] (it: &mut core::slice::Split<'a, T, P>) -> (r: Option<&'a [T]>)
    ensures
        split_pred(final(it)) == split_pred(old(it)),
        split_done(old(it)) ==> r is None && split_done(final(it)),
        !split_done(old(it)) ==> ({
            let s = split_rest(old(it));
            let k = first_sep(split_pred(old(it)), s, 0);
            &&& r is Some
            &&& r.unwrap()@ == s.subrange(0, k)
            &&& (k < s.len() ==> !split_done(final(it)) && split_rest(final(it)) == s.subrange(k + 1, s.len() as int))
            &&& (k == s.len() ==> split_done(final(it)))
        });

// counts lines like first_byte does
fn t(buf: &[u8]) -> (n: usize)
    requires buf@.len() < 1000
{
    let mut n: usize = 0;
    let mut pos: usize = 0;
    let mut it = buf.split(|b: &u8| -> (r: bool) ensures r == (*b == 10u8) { *b == b'\n' });
    loop
        invariant
            !split_done(&it) ==> pos <= buf@.len() && split_rest(&it) == buf@.subrange(pos as int, buf@.len() as int),
            split_done(&it) ==> pos == buf@.len() + 1,
            n <= pos, pos <= buf@.len() + 1,
            buf@.len() < 1000,
        decreases (if split_done(&it) { 0int } else { buf@.len() + 1 - pos }),
    {
        proof { if !split_done(&it) { lemma_first_sep_bounds(split_pred(&it), split_rest(&it), 0); } }
        let ghost pos0 = pos as int;
        let ghost rest0 = split_rest(&it);
        match it.next() {
            Some(line) => {
                proof {
                    let k = first_sep(split_pred(&it), rest0, 0);
                    if k < rest0.len() {
                        assert(rest0.subrange(k + 1, rest0.len() as int) =~= buf@.subrange(pos0 + k + 1, buf@.len() as int));
                    }
                }
                n += 1;
                pos += line.len() + 1;
            }
            None => break,
        }
    }
    n
}
} // verus!
fn main() {}
