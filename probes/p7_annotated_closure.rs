use vstd::prelude::*;
verus! {
fn t2(o: Option<usize>, s: usize) -> (r: Option<usize>)
    requires s < 1000, o matches Some(p) ==> p < 1000
    ensures r == match o { Some(p) => Some((s + p + 1) as usize), None => None }
{
    o.map(|pos: usize| -> (r: usize) requires s + pos + 1 <= usize::MAX ensures r == s + pos + 1 { s + pos + 1 })
}
} // verus!
fn main() {}
