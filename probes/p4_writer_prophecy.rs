use vstd::prelude::*;
verus! {

pub struct IoError { pub kind: u8 }
pub type IoResult<T> = Result<T, IoError>;

pub trait Write: Sized {
    spec fn written(&self) -> Seq<u8>;
    #[verifier::prophetic]
    spec fn fin(&self) -> Seq<u8>;
    fn write_all(&mut self, buf: &[u8]) -> (r: IoResult<()>)
        ensures r is Ok ==> (*final(self)).written() == (*old(self)).written() + buf@,
          (*final(self)).fin() == (*old(self)).fin();
    proof fn resolve_law(&self)
        requires has_resolved(*self)
        ensures self.fin() == self.written();
}

impl<W: Write> Write for &mut W {
    open spec fn written(&self) -> Seq<u8> { (**self).written() }
    #[verifier::prophetic]
    open spec fn fin(&self) -> Seq<u8> { (*final(*self)).written() }
    fn write_all(&mut self, buf: &[u8]) -> (r: IoResult<()>)
    {
        (**self).write_all(buf)
    }
    proof fn resolve_law(&self) {}
}

pub broadcast proof fn resolve_law_b<W: Write>(w: W)
    requires #[trigger] has_resolved(w)
    ensures w.fin() == w.written()
{ w.resolve_law(); }

pub fn write_seq<W>(mut writer: W, seq: &[u8]) -> (r: IoResult<()>)
where
    W: Write,
    ensures r is Ok ==> writer.fin() == writer.written() + seq@ + seq![10u8]
{
    writer.write_all(seq)?;
    broadcast use resolve_law_b;
    writer.write_all(&[10u8])
}

} // verus!
fn main() {}
