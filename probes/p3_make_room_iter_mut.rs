use vstd::prelude::*;
use vstd::std_specs::iter::IteratorSpec;
verus! {

pub struct BP { start: usize, seq_pos: Vec<usize> }
pub struct Rd { bp: BP, search_pos: usize }

fn mr(r: &mut Rd)
    requires old(r).search_pos >= old(r).bp.start, forall|i:int| 0<=i<old(r).bp.seq_pos.len() ==> old(r).bp.seq_pos[i] >= old(r).bp.start
    ensures final(r).bp.seq_pos.len() == old(r).bp.seq_pos.len(),
       final(r).bp.start == 0, final(r).search_pos == old(r).search_pos - old(r).bp.start,
       forall|i:int| 0<=i<old(r).bp.seq_pos.len() ==> #[trigger] final(r).bp.seq_pos[i] == old(r).bp.seq_pos[i] - old(r).bp.start
{
    let consumed = r.bp.start;
    r.bp.start = 0;
    r.search_pos -= consumed;
    let ghost old_sp = old(r).bp.seq_pos@;
    for s in it: r.bp.seq_pos.iter_mut()
        invariant it.index@ <= old_sp.len(),
          it.history@.len() == it.index@,
          forall|i:int| 0<=i<old_sp.len() ==> old_sp[i] >= consumed,
          it.snapshot@.remaining().len() == old_sp.len(),
          forall|j:int| 0 <= j < old_sp.len() ==> *(#[trigger] it.snapshot@.remaining()[j]) == old_sp[j],
          forall|j:int| 0 <= j < it.index@ ==> #[trigger] it.history@[j] == it.snapshot@.remaining()[j],
          forall|j:int| 0 <= j < it.index@ ==> *final(#[trigger] it.snapshot@.remaining()[j]) == old_sp[j] - consumed,
    {
        *s -= consumed;
    }
}
} // verus!
fn main() {}
