use vstd::prelude::*;
pub mod io {
    use vstd::prelude::*;
    verus! {
    #[derive(Structural, PartialEq, Eq, Clone, Copy)]
    pub enum ErrorKind { Interrupted, Other }
    pub struct Error { pub k: ErrorKind, pub id: Ghost<int> }
    impl Error {
        pub fn kind(&self) -> (r: ErrorKind) ensures r == self.k { self.k }
    }
    pub type Result<T> = core::result::Result<T, Error>;
    pub trait Read {}
    } // verus!
}

verus! {

// ---------- trusted stubs ----------
#[verifier::accept_recursive_types(R)]
#[verifier::external_body]
pub struct BufReader<R> { r: R }

impl<R> BufReader<R> {
    pub uninterp spec fn file(&self) -> Seq<u8>;
    pub uninterp spec fn base(&self) -> nat;
    pub uninterp spec fn buf(&self) -> Seq<u8>;
    pub uninterp spec fn cap(&self) -> nat;
    pub uninterp spec fn head(&self) -> nat;
    pub uninterp spec fn interrupts_left(&self) -> nat;

    pub open spec fn wf(&self) -> bool {
        &&& self.head() + self.buf().len() <= self.cap()
        &&& self.cap() <= usize::MAX
        &&& (self.buf().len() > 0 ==> self.base() + self.buf().len() <= self.file().len())
        &&& (self.buf().len() > 0 ==> self.buf() == self.file().subrange(self.base() as int, (self.base() + self.buf().len()) as int))
    }
    pub open spec fn at_eof(&self) -> bool { self.base() + self.buf().len() >= self.file().len() }

    #[verifier::external_body]
    pub fn buffer(&self) -> (r: &[u8]) ensures r@ == self.buf() { unimplemented!() }
    #[verifier::external_body]
    pub fn capacity(&self) -> (r: usize) ensures r == self.cap() { unimplemented!() }
    #[verifier::external_body]
    pub fn read_into_buf(&mut self) -> (r: io::Result<usize>)
        requires old(self).wf()
        ensures
            final(self).wf(),
            final(self).file() == old(self).file(), final(self).base() == old(self).base(),
            final(self).cap() == old(self).cap(), final(self).head() == old(self).head(),
            match r {
                Ok(n) => {
                    &&& final(self).buf().len() == old(self).buf().len() + n
                    &&& final(self).buf().subrange(0, old(self).buf().len() as int) == old(self).buf()
                    &&& final(self).interrupts_left() == old(self).interrupts_left()
                    &&& (n == 0 ==> (old(self).head() + old(self).buf().len() == old(self).cap() || old(self).at_eof()))
                },
                Err(e) => {
                    &&& final(self).buf() == old(self).buf()
                    &&& (e.k == io::ErrorKind::Interrupted ==> final(self).interrupts_left() < old(self).interrupts_left())
                    &&& (e.k != io::ErrorKind::Interrupted ==> final(self).interrupts_left() == old(self).interrupts_left())
                },
            },
    { unimplemented!() }
}

// ---------- real code (lib.rs fill_buf), annotations only ----------
fn fill_buf<R>(
    reader: &mut BufReader<R>,
) -> (res: io::Result<usize>)
where
    R: io::Read,
    requires old(reader).wf(), old(reader).head() == 0,
    ensures
        final(reader).wf(), final(reader).head() == 0,
        final(reader).file() == old(reader).file(), final(reader).base() == old(reader).base(),
        final(reader).cap() == old(reader).cap(),
        final(reader).buf().len() >= old(reader).buf().len(),
        final(reader).buf().subrange(0, old(reader).buf().len() as int) == old(reader).buf(),
        match res {
            Ok(n) => n == final(reader).buf().len() - old(reader).buf().len()
                     && (final(reader).buf().len() == final(reader).cap() || final(reader).at_eof()),
            Err(e) => e.k != io::ErrorKind::Interrupted,
        },
{
    let initial_size = reader.buffer().len();
    let mut num_read = 0;
    while initial_size + num_read < reader.capacity()
        invariant
            reader.wf(), reader.head() == 0,
            reader.file() == old(reader).file(), reader.base() == old(reader).base(), reader.cap() == old(reader).cap(),
            initial_size == old(reader).buf().len(),
            reader.buf().len() == initial_size + num_read,
            reader.buf().subrange(0, initial_size as int) == old(reader).buf(),
        ensures reader.buf().len() == reader.cap() || reader.at_eof(),
        decreases reader.interrupts_left(), reader.cap() - reader.buf().len(),
    {
        match reader.read_into_buf() {
            Ok(0) => break,
            Ok(n) => num_read += n,
            Err(ref e) if e.kind() == io::ErrorKind::Interrupted => {}
            Err(e) => return Err(e),
        }
    }
    Ok(num_read)
}

} // verus!
fn main() {}
