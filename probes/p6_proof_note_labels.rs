use vstd::prelude::*;
verus! {
fn g(x: u32) -> (r: u32)
    requires #[verifier::proof_note("C03:g:pre")] (x < 10),
    ensures r == x
{ x }

fn f(x: u32) -> (r: u32)
    requires x < 100
    ensures
        #[verifier::proof_note("C01:f:post")] (r == x),
{
    let mut i: u32 = 0;
    while i < x
        invariant
            #[verifier::proof_note("C04:f:inv")] (i <= x + 0),
            #[verifier::proof_note("C04:f:inv2")] (i < 50),
        decreases x - i
    {
        i = i + 1;
    }
    let y = g(i);
    y
}
} // verus!
fn main() {}
