use vstd::prelude::*;
verus! {

macro_rules! unwrap_or {
    ($expr:expr, $or:block) => {
        match $expr {
            Some(item) => item,
            None => $or,
        }
    };
}

pub open spec fn nl(f: Seq<u8>, i: int) -> int
    decreases f.len() - i
{
    if i < 0 || i >= f.len() { f.len() as int } else if f[i] == 10u8 { i } else { nl(f, i + 1) }
}

pub proof fn lemma_nl_bounds(f: Seq<u8>, i: int)
    requires 0 <= i <= f.len()
    ensures i <= nl(f, i) <= f.len(),
            nl(f, i) < f.len() ==> f[nl(f, i)] == 10u8,
            forall|j: int| i <= j < nl(f, i) ==> f[j] != 10u8,
    decreases f.len() - i
{
    if i < f.len() && f[i] != 10u8 { lemma_nl_bounds(f, i + 1); }
}

// characterisation: if k is the first LF at or after i then nl == k
pub proof fn lemma_nl_is(f: Seq<u8>, i: int, k: int)
    requires 0 <= i <= k <= f.len(), forall|j: int| i <= j < k ==> f[j] != 10u8, k < f.len() ==> f[k] == 10u8,
    ensures nl(f, i) == k
    decreases k - i
{
    if i < k { lemma_nl_is(f, i + 1, k); }
}

// trusted memchr
#[verifier::external_body]
pub fn memchr(needle: u8, haystack: &[u8]) -> (r: Option<usize>)
    ensures match r {
        Some(p) => p < haystack@.len() && haystack@[p as int] == needle && forall|j: int| 0 <= j < p ==> haystack@[j] != needle,
        None => forall|j: int| 0 <= j < haystack@.len() ==> haystack@[j] != needle,
    }
{ unimplemented!() }

#[verifier::accept_recursive_types(R)]
#[verifier::external_body]
pub struct BufReader<R> { r: R }
impl<R> BufReader<R> {
    pub uninterp spec fn buf(&self) -> Seq<u8>;
    #[verifier::external_body]
    pub fn buffer(&self) -> (r: &[u8]) ensures r@ == self.buf() { unimplemented!() }
}

#[derive(Structural, Copy, Clone, Eq, PartialEq)]
enum RecordPos { Head, Seq, Sep, Qual }

struct BufferPosition { pos: (usize, usize), seq: usize, sep: usize, qual: usize }

pub struct Reader<R> {
    buf_reader: BufReader<R>,
    buf_pos: BufferPosition,
    incomplete_pos: Option<RecordPos>,
}

impl<R> Reader<R> {
    spec fn b(&self) -> Seq<u8> { self.buf_reader.buf() }

    fn get_buf(&self) -> (r: &[u8]) ensures r@ == self.b() {
        self.buf_reader.buffer()
    }

    fn find_line(&self, search_start: usize) -> (r: Option<usize>)
        requires search_start <= self.b().len(), self.b().len() < usize::MAX
        ensures match r {
            Some(p) => nl(self.b(), search_start as int) < self.b().len() && p == nl(self.b(), search_start as int) + 1 && p > search_start,
            None => nl(self.b(), search_start as int) == self.b().len(),
        }
    {
        let ghost bb = self.b();
        let ghost ss = search_start as int;
        proof { lemma_nl_bounds(bb, ss); }
        let res = memchr(b'\n', &self.get_buf()[search_start..]);
        proof {
            match res {
                Some(p) => {
                    assert forall|j: int| ss <= j < ss + p implies bb[j] != 10u8 by { assert(bb.subrange(ss, bb.len() as int)[j - ss] == bb[j]); }
                    assert(bb.subrange(ss, bb.len() as int)[p as int] == bb[ss + p]);
                    lemma_nl_is(bb, ss, ss + p);
                }
                None => {
                    assert forall|j: int| ss <= j < bb.len() implies bb[j] != 10u8 by { assert(bb.subrange(ss, bb.len() as int)[j - ss] == bb[j]); }
                    lemma_nl_is(bb, ss, bb.len() as int);
                }
            }
        }
        res.map(|pos: usize| -> (r: usize) requires search_start + pos + 1 <= usize::MAX ensures r == search_start + pos + 1 { search_start + pos + 1 })
    }

    fn search(&mut self) -> (r: Result<bool, ()>)
        requires old(self).buf_pos.pos.0 <= old(self).b().len(), old(self).b().len() < usize::MAX
        ensures final(self).b() == old(self).b(), final(self).buf_pos.pos.0 == old(self).buf_pos.pos.0,
            ({ let f = old(self).b(); let p = old(self).buf_pos.pos.0 as int;
               let e1 = nl(f, p); let e2 = nl(f, e1 + 1); let e3 = nl(f, e2 + 1); let e4 = nl(f, e3 + 1);
               match r {
                 Ok(true) => e4 < f.len() && final(self).buf_pos.seq == e1 + 1 && final(self).buf_pos.sep == e2 + 1
                             && final(self).buf_pos.qual == e3 + 1 && final(self).buf_pos.pos.1 == e4,
                 Ok(false) => match final(self).incomplete_pos {
                     Some(RecordPos::Head) => e1 == f.len(),
                     Some(RecordPos::Seq) => e1 < f.len() && e2 == f.len() && final(self).buf_pos.seq == e1 + 1,
                     Some(RecordPos::Sep) => e2 < f.len() && e3 == f.len() && final(self).buf_pos.seq == e1 + 1 && final(self).buf_pos.sep == e2 + 1,
                     Some(RecordPos::Qual) => e3 < f.len() && e4 == f.len() && final(self).buf_pos.seq == e1 + 1 && final(self).buf_pos.sep == e2 + 1 && final(self).buf_pos.qual == e3 + 1,
                     None => false,
                 },
                 Err(_) => false,
               } })
    {
        self.buf_pos.seq = unwrap_or!(self.find_line(self.buf_pos.pos.0), {
            self.incomplete_pos = Some(RecordPos::Head);
            return Ok(false);
        });

        self.buf_pos.sep = unwrap_or!(self.find_line(self.buf_pos.seq), {
            self.incomplete_pos = Some(RecordPos::Seq);
            return Ok(false);
        });

        self.buf_pos.qual = unwrap_or!(self.find_line(self.buf_pos.sep), {
            self.incomplete_pos = Some(RecordPos::Sep);
            return Ok(false);
        });

        self.buf_pos.pos.1 = unwrap_or!(self.find_line(self.buf_pos.qual), {
            self.incomplete_pos = Some(RecordPos::Qual);
            return Ok(false);
        }) - 1;

        Ok(true)
    }
}

} // verus!
fn main() {}
