use vstd::prelude::*;
verus! {
#[derive(Structural, Copy, Clone, Eq, PartialEq, Ord, PartialOrd)]
enum RecordPos { Head, Seq, Sep, Qual }

spec fn rp_ord(p: RecordPos) -> int { match p { RecordPos::Head => 0, RecordPos::Seq => 1, RecordPos::Sep => 2, RecordPos::Qual => 3 } }
impl vstd::std_specs::cmp::PartialOrdSpecImpl for RecordPos {
    closed spec fn obeys_partial_cmp_spec() -> bool { true }
    closed spec fn partial_cmp_spec(&self, other: &RecordPos) -> Option<core::cmp::Ordering> {
        if rp_ord(*self) < rp_ord(*other) { Some(core::cmp::Ordering::Less) } else if rp_ord(*self) == rp_ord(*other) { Some(core::cmp::Ordering::Equal) } else { Some(core::cmp::Ordering::Greater) }
    }
}
fn t(p: RecordPos) {
    if p >= RecordPos::Seq { assert(p != RecordPos::Head); }
    if p == RecordPos::Qual { assert(p is Qual); }
    if p <= RecordPos::Seq { assert(p is Head || p is Seq); }
    if p > RecordPos::Head { assert(!(p is Head)); }
}
fn c(p: RecordPos) -> (r: u64) ensures r == (match p { RecordPos::Head => 0u64, RecordPos::Seq => 1, RecordPos::Sep => 2, RecordPos::Qual => 3 }) {
    p as u64
}
} // verus!
fn main() {}
