#!/bin/bash
# confirm a seeded change in a scratch worktree: usage seedconfirm.sh <worktree> <patch.diff> <demo.rs>
# prints: TESTS_WITH_PATCH=ok|fail  DEMO_WITH_PATCH=fail|pass  DEMO_WITHOUT_PATCH=pass|fail
WT=$1; PATCH=$2; DEMO=$3
cd "$WT" || exit 2
git checkout -q --detach "$(git -C /repo rev-parse HEAD)" 2>/dev/null
git checkout -q -- . ; git clean -fdq -- tests
NAME=seed_demo_$$
git apply "$PATCH" || { echo "PATCH_APPLIES=no"; exit 1; }
OUT=$(CARGO_NET_OFFLINE=true cargo test --offline 2>&1)
NOK=$(echo "$OUT" | grep -cE "^test result: ok")
NBAD=$(echo "$OUT" | grep -E "^test result" | grep -vc " 0 failed")
if [ "$NOK" -ge 4 ] && [ "$NBAD" -eq 0 ]; then echo TESTS_WITH_PATCH=ok; else echo "TESTS_WITH_PATCH=fail (ok lines=$NOK, bad=$NBAD) $(echo "$OUT" | grep -E "^error" | head -3)"; fi
cp "$DEMO" tests/$NAME.rs
if CARGO_NET_OFFLINE=true cargo test --offline --test $NAME 2>&1 | grep -E "^test result" | grep -q " 0 failed"; then echo DEMO_WITH_PATCH=pass; else echo DEMO_WITH_PATCH=fail; fi
git checkout -q -- src
if CARGO_NET_OFFLINE=true cargo test --offline --test $NAME 2>&1 | grep -E "^test result" | grep -q " 0 failed"; then echo DEMO_WITHOUT_PATCH=pass; else echo DEMO_WITHOUT_PATCH=fail; fi
rm -f tests/$NAME.rs
git checkout -q -- . ; git clean -fdq -- tests
