#!/bin/bash
# apply a seeded patch to /repo, run the given checks, undo.   usage: seedrun.sh <patch> <prop> [<prop>...]
PATCH=$1; shift
cd /verif
git -C /repo apply "$PATCH" || { echo "patch does not apply"; exit 2; }
for p in "$@"; do
  out=$(./check $p 2>&1); rc=$?
  echo "[$p rc=$rc] $(echo "$out" | grep -E "^(VIOLATION|OK|UNDECIDED|KNOWN)" | head -3)"
  echo "$out" | grep "failed obligation" | head -4
done
git -C /repo checkout -- .
