#!/bin/bash
# usage: seedsave.sh <worktree> <seed id> <property> "<needs>" "<detected>"
WT=$1; ID=$2; PROP=$3; NEEDS=$4; DET=$5; RC=${6:-1}
D=/verif/seeded/$ID; mkdir -p $D
cp $WT/seed/patch.diff $WT/seed/demo.rs $WT/seed/notes.md $D/
python3 - "$ID" "$PROP" "$NEEDS" "$DET" "$RC" <<'PY'
import json,sys
id,prop,needs,det,rc=sys.argv[1:6]
json.dump({"id":id,"property":prop,"source":"independent sub-agent given only the property text and a scratch worktree",
 "needs":needs,"confirmed":"vx/seedconfirm.sh <scratch worktree at /repo HEAD> patch.diff demo.rs -> TESTS_WITH_PATCH=ok DEMO_WITH_PATCH=fail DEMO_WITHOUT_PATCH=pass",
 "detected":det, "expect_rc":int(rc)}, open("/verif/seeded/%s/meta.json"%id,"w"), indent=1)
PY
