#!/bin/bash
# behaviour-preserving refactorings (preserved/p*.diff): no check may report a VIOLATION on any of them (exit 0 or 2 only)
WT=/tmp/preserve_wt
git -C /repo worktree remove --force $WT 2>/dev/null; git -C /repo worktree prune
git -C /repo worktree add -q --detach $WT HEAD || exit 2
cd /verif
bad=0
for p in ${@:-$(ls preserved/*.diff)}; do
  git -C $WT checkout -q -- .
  if ! git -C $WT apply /verif/$p 2>/dev/null; then echo "$p: PATCH DOES NOT APPLY"; continue; fi
  out=$(VX_NO_CANARY=1 python3 vx/check.py all --repo $WT 2>&1); rc=$?
  nok=$(echo "$out" | grep -c "^OK"); nv=$(echo "$out" | grep -c "^VIOLATION"); nu=$(echo "$out" | grep -c "^UNDECIDED")
  echo "$p: rc=$rc ok=$nok violation=$nv undecided=$nu $(echo "$out" | grep -E "^(VIOLATION|UNDECIDED)" | head -2 | cut -c1-220 | tr '\n' ' ')"
  [ $nv -eq 0 ] || bad=1
done
git -C /repo worktree remove --force $WT; git -C /repo worktree prune
exit $bad
