#!/usr/bin/env python3
"""Mechanical mutation run (development aid, not part of any check): small syntactic mutants of the functions under contract are
built and tested in scratch worktrees; mutants that survive the crate's own test suite are given to the checks.
  killed-by-tests   the existing suite already notices the mutant (uninteresting)
  VIOLATION         some check reports it
  UNDECIDED only    no check reports it, at least one is undecided
  OK                every check accepts it: an equivalent mutant or a weak contract -> triage by hand
usage: mutate.py <n_workers> <max_mutants> [seed]      results: /tmp/mutate/results.jsonl
"""
import hashlib, json, os, random, re, shutil, subprocess, sys, threading

sys.path.insert(0, os.path.dirname(os.path.abspath(__file__)))
import rsparse, splice

OUT = "/tmp/mutate"
RULES = [
    (r"<=", "<"), (r"(?<![<>=!-])<(?![<=])", "<="), (r">=", ">"), (r"(?<![<>=-])>(?![>=])", ">="),
    (r"==", "!="), (r"!=", "=="), (r"&&", "||"), (r"\|\|", "&&"),
    (r"\+ 1\b", "+ 0"), (r"\+ 1\b", "+ 2"), (r"- 1\b", "- 0"), (r"- 1\b", "- 2"),
    (r" \+ ", " - "), (r" - ", " + "), (r"\+= ", "-= "), (r"-= ", "+= "),
    (r"\btrue\b", "false"), (r"\bfalse\b", "true"), (r"\.0\b", ".1"), (r"\.1\b", ".0"),
    (r"\bpos\.0\b", "pos.1"), (r"\bseq\b", "sep"), (r"\bsep\b", "qual"), (r"\bis_none\(\)", "is_some()"), (r"\bis_some\(\)", "is_none()"),
    (r"^(\s*)self\.[a-z_.0-9]+ (=|\+=|-=) [^;]*;\s*$", r"\1;"),            # drop an assignment to a field
    (r"^(\s*)[a-z_]+ (\+=|-=) [^;]*;\s*$", r"\1;"),                      # drop an update of a local
    (r"Ok\(true\)", "Ok(false)"), (r"Ok\(false\)", "Ok(true)"),
    (r"b'\\n'", "b'\\r'"), (r"b'>'", "b'@'"), (r"b'@'", "b'>'"), (r"b'\+'", "b'-'"), (r"b' '", "b'_'"),
    (r"if !", "if "), (r"\.first\(\)", ".last()"), (r"\.last\(\)", ".first()"),
    (r"= 0;", "= 1;"), (r"\bState::Finished\b", "State::Parsing"), (r"\bState::Positioned\b", "State::Parsing"),
    (r"\.\.=", ".."), (r"\bNone\b", "Some(0)"), (r"\.skip\(1\)", ".skip(0)"), (r"\* 2\b", "* 3"),
    (r"\bqual\b", "seq"), (r"\.len\(\)", ".len() + 1"), (r"\.len\(\) > 1", ".len() > 0"), (r"\.len\(\) > 0", ".len() > 1"),
    (r"(?<![<>=!-])<(?![<=])", ">"), (r"(?<![<>=-])>(?![>=])", "<"), (r"\bstart\b", "search_pos"), (r"\bsearch_pos\b", "start"),
    (r"\bconsumed\b", "(consumed + 1)"), (r"\bn_records\b", "None::<usize>"), (r"\bis_new\b", "true"), (r"\bmake_room\b(?!\()", "true"),
    (r"State::New", "State::Positioned"), (r"State::Incomplete", "State::Parsing"), (r"State::Parsing", "State::Positioned"),
    (r"\+ 1\b", ""), (r" - 1\b", ""), (r"\bpos\.1\b", "pos.0"), (r"Some\(RecordPos::Sep\)", "Some(RecordPos::Qual)"),
    (r"RecordPos::Head", "RecordPos::Seq"), (r"RecordPos::Qual", "RecordPos::Sep"), (r"line_offset", "0"), (r"\bparse_id\b", "true"),
]


def sh(cmd, **kw):
    return subprocess.run(cmd, stdout=subprocess.PIPE, stderr=subprocess.STDOUT, text=True, **kw)


def candidates():
    sp = splice.Splicer("/repo", "/verif/contracts").run()
    out = []
    for key, info in sp.fns.items():
        if not info.has_body:
            continue
        rel = os.path.relpath(info.repo_file, "/repo")
        lines = open(info.repo_file).read().split("\n")
        for ln in range(info.repo_line_start, info.repo_line_end):        # 1-based, skip the signature line
            text = lines[ln]
            if text.strip().startswith("//") or not text.strip():
                continue
            for ri, (pat, rep) in enumerate(RULES):
                for m in re.finditer(pat, text):
                    # not inside a comment / string / generic bracket
                    if "//" in text[:m.start()] or text[:m.start()].count('"') % 2 == 1:
                        continue
                    new = text[:m.start()] + m.expand(rep) + text[m.end():]
                    out.append(dict(fn=key, file=rel, line=ln + 1, rule="%s -> %s" % (pat, rep), old=text, new=new))
    return out


def worker(wid, jobs, lock, res_f):
    wt = "/tmp/mut_wt_%d" % wid
    sh(["git", "-C", "/repo", "worktree", "remove", "--force", wt])
    sh(["git", "-C", "/repo", "worktree", "prune"])
    sh(["git", "-C", "/repo", "worktree", "add", "-q", "--detach", wt, "HEAD"])
    shutil.copy("/repo/Cargo.lock", wt + "/Cargo.lock")
    env = dict(os.environ, CARGO_NET_OFFLINE="true", CARGO_TARGET_DIR="/tmp/mut_target_%d" % wid, VX_NO_CANARY="1")
    while True:
        with lock:
            if not jobs:
                break
            j = jobs.pop()
        p = os.path.join(wt, j["file"])
        src = open(os.path.join("/repo", j["file"])).read().split("\n")
        src[j["line"] - 1] = j["new"]
        open(p, "w").write("\n".join(src))
        try:
            r = sh(["timeout", "-k", "5", "600", "cargo", "test", "--offline", "-q"], cwd=wt, env=env)
        except Exception as e:      # noqa
            r = subprocess.CompletedProcess([], 1, stdout="error: " + repr(e))
        if r.returncode == 124:
            r.stdout += "\ntest result: FAILED (hang)"
        oks = len(re.findall(r"^test result: ok", r.stdout, re.M))
        bad = len(re.findall(r"^test result: FAILED", r.stdout, re.M)) + (1 if "error" in r.stdout and oks < 4 else 0)
        if oks < 4 or bad:
            j["outcome"] = "killed-by-tests" if "could not compile" not in r.stdout else "does-not-compile"
        else:
            c = sh(["timeout", "-k", "5", "3000", "python3", "/verif/vx/check.py", "all", "--repo", wt], env=env)
            v = re.findall(r"^VIOLATION property=(C\d+)", c.stdout, re.M)
            u = re.findall(r"^UNDECIDED property=(C\d+)", c.stdout, re.M)
            o = re.findall(r"^OK property=(C\d+)", c.stdout, re.M)
            j["violation"], j["undecided"], j["ok"] = v, u, len(o)
            j["outcome"] = "VIOLATION" if v else ("UNDECIDED only" if u else ("OK" if o else "checker-error"))
            j["first"] = next((l.strip() for l in c.stdout.split("\n") if "failed obligation" in l), "")[:160]
        with lock:
            res_f.write(json.dumps(j) + "\n")
            res_f.flush()
        sh(["git", "-C", wt, "checkout", "-q", "--", "."])
    sh(["git", "-C", "/repo", "worktree", "remove", "--force", wt])
    shutil.rmtree("/tmp/mut_target_%d" % wid, ignore_errors=True)


def main():
    nw, mx = int(sys.argv[1]), int(sys.argv[2])
    random.seed(int(sys.argv[3]) if len(sys.argv) > 3 else 1)
    os.makedirs(OUT, exist_ok=True)
    c = candidates()
    random.shuffle(c)
    # at most 2 mutants per source line, spread over functions
    seen, jobs = {}, []
    done = set()
    try:
        for l in open(os.path.join(OUT, "results.jsonl")):
            d = json.loads(l)
            done.add((d["file"], d["line"], d["new"]))
    except Exception:
        pass
    for j in c:
        k = (j["file"], j["line"])
        if (j["file"], j["line"], j["new"]) in done or j["new"] == j["old"]:
            continue
        if seen.get(k, 0) >= int(os.environ.get('MUT_PER_LINE', '2')):
            continue
        seen[k] = seen.get(k, 0) + 1
        jobs.append(j)
        if len(jobs) >= mx:
            break
    print("candidates: %d, selected: %d" % (len(c), len(jobs)))
    lock = threading.Lock()
    res_f = open(os.path.join(OUT, "results.jsonl"), "a")
    ts = [threading.Thread(target=worker, args=(i, jobs, lock, res_f)) for i in range(nw)]
    [t.start() for t in ts]
    [t.join() for t in ts]
    sh(["git", "-C", "/repo", "worktree", "prune"])


if __name__ == "__main__":
    main()
