#!/bin/bash
# regression over all kept seeds: each must make the check of its own property exit 1.  usage: seedall.sh [id ...]
# works on a scratch worktree (never on /repo), removed at the end
WT=/tmp/seedall_wt
git -C /repo worktree remove --force $WT 2>/dev/null; git -C /repo worktree prune
git -C /repo worktree add -q --detach $WT HEAD || exit 2
cd /verif
ids=${@:-$(ls seeded)}
bad=0
for id in $ids; do
  prop=$(jq -r .property seeded/$id/meta.json)
  git -C $WT checkout -q -- . 
  if ! git -C $WT apply /verif/seeded/$id/patch.diff 2>/dev/null; then echo "$id: PATCH DOES NOT APPLY"; bad=1; continue; fi
  out=$(python3 vx/check.py $prop --repo $WT 2>&1); rc=$?
  lab=$(echo "$out" | grep "failed obligation" | head -1 | sed 's/.*\[\(.*\)\].*/\1/')
  want=$(jq -r '.expect_rc // 1' seeded/$id/meta.json)
  echo "$id: $prop rc=$rc (expected $want) $lab"
  [ $rc -eq $want ] || bad=1
done
git -C /repo worktree remove --force $WT; git -C /repo worktree prune
exit $bad
