#!/usr/bin/env python3
"""Splicer: builds one Verus file from /repo's current sources and /verif/contracts/*.rs.

The contract files are plain Verus text plus directive lines (`//@...`).  Real items are
copied from /repo token-for-token; the only things added are ghost annotations, and the
only rewrites are the mechanical rules R7..R10 of DESIGN.md 2.1, applied by this tool (never
written by hand in a contract file).  Every generated line carries a source-map entry.

Directives
  //@item MOD::Name [attrs="#[derive(..)]"] [vis="pub"]   copy a struct/enum/macro_rules/const/type item
  //@impl_open MOD::Owner::member                    emit the header of the impl/trait containing member + "{"
  //@fn MOD::Owner::name [tags=C01,C06] [ret=r] [rename=new_name]
      //@spec                 following lines go between signature and body (requires/ensures/decreases)
      //@loop N [iter=it]     following lines go after the header of the N-th loop (0-based)
      //@closure N params="a: T, b: U" [ret="(r: T)"]   annotate N-th closure; following lines = requires/ensures
      //@before /regex/ [nth=K]   following lines (ghost only) are inserted before the K-th match in the body
      //@after /regex/ [nth=K]
      //@body_start           following lines (ghost only) go right after the body's opening brace
  //@end
  //@sig MOD::Trait::name [ret=r]  ... //@spec ... //@end    trait method declaration without body
Clause labels:  a spec line starting with `[C02,C06|label]` is labelled; the label is kept in the source map.
"""
import hashlib
import json
import os
import re
import sys
from dataclasses import dataclass, field
from typing import Dict, List, Optional, Tuple

sys.path.insert(0, os.path.dirname(os.path.abspath(__file__)))
import rsparse
from rsparse import Tok, tokenize, match_close


class SpliceError(Exception):
    """Raised for anything that must end in exit 2 (undecided), never in an alarm."""


REPO_FILES = {"lib": "src/lib.rs", "policy": "src/policy.rs", "fastq": "src/fastq.rs", "fasta": "src/fasta.rs"}

GHOST_PREFIXES = ("proof", "let ghost", "let tracked", "invariant", "invariant_except_break", "decreases",
                  "ensures", "requires", "assert", "broadcast use", "//", "reveal", "#[verifier")

LABEL_RE = re.compile(r"^(\s*)\[([A-Z0-9,]+)\|([^\]]+)\]\s?")


@dataclass
class Line:
    text: str
    fn: Optional[str] = None          # function key this line belongs to
    label: Optional[str] = None
    tags: Tuple[str, ...] = ()
    src: Optional[Tuple[str, int]] = None    # (/repo file, line)
    tmpl: Optional[Tuple[str, int]] = None   # (contract file, line)
    kind: str = "ghost"               # ghost | real


@dataclass
class FnInfo:
    unverified: Optional[str] = field(default=None, kw_only=True)   # reason, if the body could not be put under contract on this tree
    key: str
    tags: Tuple[str, ...]
    repo_file: str
    repo_line_start: int
    repo_line_end: int
    sha: str
    gen_line_start: int = 0
    gen_line_end: int = 0
    labels: List[str] = field(default_factory=list)
    rewrites: List[str] = field(default_factory=list)
    n_loops: int = 0
    open_closures: int = 0      # closures in the body that no //@closure section annotates (their result is unknown to the verifier)
    has_body: bool = True
    gen_name: str = ""


def split_key(rest: str):
    """'policy::BufPolicy for StdPolicy::grow_to ret=r tags=C09' -> (key, 'ret=r tags=C09')"""
    m = re.match(r"(.*?)((\s+\w+=(\"[^\"]*\"|\S+))*)\s*$", rest)
    return m.group(1).strip(), m.group(2)


def parse_kv(rest: str) -> Dict[str, str]:
    out = {}
    for m in re.finditer(r'(\w+)=("([^"]*)"|(\S+))', rest):
        out[m.group(1)] = m.group(3) if m.group(3) is not None else m.group(4)
    return out


# ----------------------------------------------------------------------------------------------
# mechanical rewrites R9 / R10 / R7 on a function's token list -> list of (start, end, replacement, rule)

def bytestr_to_array(lit: str) -> str:
    assert lit.startswith('b"') and lit.endswith('"')
    s = lit[2:-1]
    out, i = [], 0
    esc = {"n": 10, "r": 13, "t": 9, "\\": 92, "0": 0, '"': 34, "'": 39}
    while i < len(s):
        if s[i] == "\\":
            c = s[i + 1]
            if c == "x":
                out.append(int(s[i + 2:i + 4], 16))
                i += 4
            else:
                out.append(esc[c])
                i += 2
        else:
            out.append(ord(s[i]))
            i += 1
    return "&[" + ", ".join("%du8" % b for b in out) + "]"


def chain_start(toks: List[Tok], k: int) -> int:
    """index of the first token of the postfix expression that ends at toks[k] (ident, `)` or `]`)"""
    while True:
        tk = toks[k]
        if tk.kind == "punct" and tk.text in (")", "]"):
            d = 0
            while True:
                if toks[k].kind == "punct" and toks[k].text in (")", "]"):
                    d += 1
                elif toks[k].kind == "punct" and toks[k].text in ("(", "["):
                    d -= 1
                    if d == 0:
                        break
                k -= 1
            if k >= 1 and toks[k - 1].kind == "ident" and toks[k - 1].text not in ("if", "while", "match", "return", "in", "let", "else"):
                k -= 1
        elif tk.kind in ("ident", "num"):
            pass
        elif tk.kind == "punct" and tk.text == "?":
            k -= 1
            continue
        else:
            raise SpliceError("cannot find the start of a postfix expression")
        if k >= 1 and toks[k - 1].kind == "punct" and toks[k - 1].text in (".", "::"):
            k -= 2
            continue
        return k


def mechanical_rewrites(text: str, toks: List[Tok], r12: Optional[str] = None, open_closures=(), result_form=False):
    edits = []
    n = len(toks)
    # return type of the function: `-> Option<..>` decides which form R12 uses for `?`
    ret_option = False
    d0 = 0
    for j, tj in enumerate(toks):
        if tj.text in ("(", "[", "<"):
            d0 += 1
        elif tj.text in (")", "]", ">") and not (j > 0 and toks[j - 1].text == "-"):
            d0 -= 1
        elif tj.text == "{" and d0 <= 0:
            break
        elif tj.text == "->" and d0 <= 0:
            ret_option = j + 1 < n and toks[j + 1].text == "Option"
            break
    # R19: RECV.splitn(N, 'c') with a char literal separator (str::splitn; the slice form takes a closure)
    #      ->  vx_str_splitn(RECV, N, 'c'), the trusted wrapper of contracts/15_stdspecs.rs (str::splitn is generic over the
    #      unstable Pattern trait, whose generic associated type Verus cannot declare).  First, so that its opening text precedes
    #      R12's at the same offset.
    for i, t in enumerate(toks):
        if t.kind == "ident" and t.text == "splitn" and i >= 2 and toks[i - 1].text == "." and i + 1 < n and toks[i + 1].text == "(":
            close = match_close(toks, i + 1)
            if toks[close - 1].kind == "char" and not toks[close - 1].text.startswith("b"):
                k = chain_start(toks, i - 2)
                edits.append((toks[k].start, toks[k].start, "vx_str_splitn(", "R19a"))
                edits.append((toks[i - 1].start, toks[i + 1].end, ", ", "R19b"))
    for i, t in enumerate(toks):
        if t.kind == "str" and t.text.startswith('b"'):
            edits.append((t.start, t.end, bytestr_to_array(t.text), "R9"))
        if t.kind == "ident" and t.text in ("assert", "debug_assert") and i + 2 < n and toks[i + 1].text == "!" \
                and toks[i + 2].text == "(":
            k = match_close(toks, i + 2)
            inner = text[toks[i + 2].end:toks[k].start]
            end = toks[k].end
            semi = k + 1 < n and toks[k + 1].text == ";"
            if semi:
                end = toks[k + 1].end
            edits.append((t.start, end, "if !(" + inner + ") { vx_panic(); }", "R10"))
        # R7: for PAT in &mut EXPR {   ->   for PAT in EXPR.iter_mut() {
        if t.kind == "ident" and t.text == "in" and i + 2 < n and toks[i + 1].text == "&" and toks[i + 2].text == "mut":
            # make sure this `in` belongs to a `for`
            j = i - 1
            while j >= 0 and toks[j].text not in ("for", ";", "{", "}"):
                j -= 1
            if j >= 0 and toks[j].text == "for":
                k = i + 3
                depth = 0
                while k < n:
                    if toks[k].text in ("(", "["):
                        depth += 1
                    elif toks[k].text in (")", "]"):
                        depth -= 1
                    elif toks[k].text == "{" and depth == 0:
                        break
                    k += 1
                expr = text[toks[i + 3].start:toks[k - 1].end]
                edits.append((toks[i + 1].start, toks[k - 1].end, expr + ".iter_mut()", "R7"))
        # R12: E?  ->  (match E { Ok(v) => v, Err(e) => return Err(From::from(e)) })   [the definition of `?` on Result]
        if r12 and t.kind == "punct" and t.text == "?" and i >= 1 and \
                re.search(r12, text[toks[chain_start(toks, i - 1)].start:t.start]):
            k = chain_start(toks, i - 1)
            # nested `?` inside the same chain would overlap; not present in this code base
            edits.append((toks[k].start, toks[k].start, "(match ", "R12a"))
            if ret_option:
                # in a function that returns Option<..> the operand of `?` is an Option:  E?  ->  match E { Some(v) => v, None => return None }
                edits.append((t.start, t.end, " { Some(vx_v) => vx_v, None => return None })", "R12b"))
            else:
                edits.append((t.start, t.end, " { Ok(vx_v) => vx_v, Err(vx_e) => return Err(::core::convert::From::from(vx_e)) })", "R12b"))
        # R11: RECV.all(F)  ->  the loop `Iterator::all` is defined to be (short-circuiting conjunction)
        if t.kind == "ident" and t.text == "all" and i >= 1 and toks[i - 1].text == "." and i + 1 < n and toks[i + 1].text == "(":
            close = match_close(toks, i + 1)
            k = chain_start(toks, i - 2)
            idx = sum(1 for e in edits if e[3] == "R11a")
            edits.append((toks[k].start, toks[k].start, "{ let mut vx_it%d = " % idx, "R11a"))
            edits.append((toks[i - 1].start, toks[i + 1].end, "; let mut vx_f%d = " % idx, "R11b"))
            edits.append((toks[close].start, toks[close].end,
                          "; let mut vx_r%d = true; loop\n/*@ALL%d@*/\n{\n/*@ALLPRE@*/\nmatch vx_it%d.next() { Some(vx_x) => {\n/*@ALLBODY@*/\nif !vx_f%d(vx_x) { vx_r%d = false; break; } } None => { break; } } } vx_r%d }"
                          % (idx, idx, idx, idx, idx, idx), "R11c"))
        # R18: `if let PAT(&LIT) = E { A } else { B }`  ->  `match E { PAT(vx_l) if *vx_l == LIT => { A } _ => { B } }`
        #      (a reference-to-literal pattern matches a reference whose target equals the literal; Verus rejects such patterns)
        if t.kind == "ident" and t.text == "if" and i + 1 < n and toks[i + 1].text == "let":
            d, eq = 0, None
            for j in range(i + 2, n):
                if toks[j].text in ("(", "["):
                    d += 1
                elif toks[j].text in (")", "]"):
                    d -= 1
                elif toks[j].text == "=" and d == 0:
                    eq = j
                    break
                elif toks[j].text == "{":
                    break
            lits = [j for j in range(i + 2, eq or i + 2) if toks[j].text == "&" and toks[j + 1].kind in ("char", "num")] if eq else []
            if len(lits) == 1:
                d, b1 = 0, None
                for j in range(eq + 1, n):
                    if toks[j].text in ("(", "["):
                        d += 1
                    elif toks[j].text in (")", "]"):
                        d -= 1
                    elif toks[j].text == "{" and d == 0:
                        b1 = j
                        break
                c1 = match_close(toks, b1)
                if c1 + 1 < n and toks[c1 + 1].text == "else" and toks[c1 + 2].text == "{":
                    c2 = match_close(toks, c1 + 2)
                    lj = lits[0]
                    lit = toks[lj + 1].text
                    pat = text[toks[i + 2].start:toks[lj].start] + "vx_l" + text[toks[lj + 1].end:toks[eq - 1].end]
                    expr = text[toks[eq + 1].start:toks[b1 - 1].end]
                    edits.append((t.start, toks[b1].start, "match %s { %s if *vx_l == %s => " % (expr, pat, lit), "R18a"))
                    edits.append((toks[c1].end, toks[c1 + 2].start, " _ => ", "R18b"))
                    edits.append((toks[c2].end, toks[c2].end, " }", "R18c"))
        # R16: RECV.nth(K), K an integer literal  ->  Iterator::nth's definition (advance K times, stop at the first None, then next())
        #      unrolled for the literal K
        if t.kind == "ident" and t.text == "nth" and i >= 1 and toks[i - 1].text == "." and i + 3 < n and toks[i + 1].text == "(" \
                and toks[i + 2].kind == "num" and toks[i + 3].text == ")" and re.fullmatch(r"\d+", toks[i + 2].text):
            kk = int(toks[i + 2].text)
            if kk > 4:
                raise SpliceError("R16: nth(%d) not unrolled" % kk)
            k = chain_start(toks, i - 2)
            idx = sum(1 for e in edits if e[3] == "R16a")
            edits.append((toks[k].start, toks[k].start, "{ let mut vx_nt%d = " % idx, "R16a"))
            tail = "vx_nt%d.next()" % idx
            for _ in range(kk):
                tail = "match vx_nt%d.next() { None => None, Some(_) => %s }" % (idx, tail)
            edits.append((toks[i - 1].start, toks[i + 3].end, "; " + tail + " }", "R16b"))
    # R20: an Option/Result combinator applied to a closure that no contract section annotates is replaced by the `match` it is
    #      defined as (core::option / core::result), which makes the closure body ordinary code of the function:
    #        R.map(|P| B)            -> (match R { Some(P) => Some(B), None => None })
    #        R.and_then(|P| B)       -> (match R { Some(P) => B, None => None })
    #        R.filter(|P| B)         -> (match R { Some(vx_f) => if { let P = &vx_f; B } { Some(vx_f) } else { None }, None => None })
    #        R.map_err(|P| B)        -> (match R { Ok(vx_o) => Ok(vx_o), Err(P) => Err(B) })
    #        R.unwrap_or_else(|| B)  -> (match R { Some(vx_o) => vx_o, None => B })      (|P| B: the Result form)
    #        R.ok_or_else(|| B)      -> (match R { Some(vx_o) => Ok(vx_o), None => Err(B) })
    #        R.or_else(|P| B)        -> (match R { Ok(vx_o) => Ok(vx_o), Err(P) => (B) })              (the Result form)
    #      The Option forms are used for map / and_then / filter; on any other receiver type (Result, an iterator) the rewritten text
    #      does not type-check and the function is emitted unverified (undecided) - never a wrong verdict.  Closures whose body
    #      leaves the closure (`return`, `?`, `break`, `continue`) are left alone.  After the main pass, so that R12's opening
    #      text at the same offset stays outside.
    for (b1, b2, bs, be) in open_closures:
        dflt = None
        if b1 >= 5 and toks[b1 - 1].text == "," and be < n and toks[be].text == ")":
            #        R.map_or(D, |P| B)      -> (match R { Some(P) => (B), None => D })     D free of calls, blocks, macros (no evaluation
            #                                                                              order to preserve)
            j = b1 - 2
            while j > 0 and toks[j].text not in ("(", ")", "[", "]", "{", "}", "!", ",", ";"):
                j -= 1
            if toks[j].text == "(" and j < b1 - 2 and toks[j - 1].text == "map_or" and toks[j - 2].text == ".":
                dflt = text[toks[j + 1].start:toks[b1 - 2].end]
                b0 = j + 1      # plays the role of b1 below: the token after the opening parenthesis
        if dflt is None:
            b0 = b1
        if b0 < 3 or toks[b0 - 1].text != "(" or toks[b0 - 3].text != "." or be >= n or toks[be].text != ")":
            continue
        name = toks[b0 - 2].text
        if name not in ("map", "and_then", "filter", "map_err", "unwrap_or_else", "ok_or_else", "is_some_and", "map_or", "or_else"):
            continue
        if (name == "map_or") != (dflt is not None):
            continue
        if any(t.text in ("return", "?", "break", "continue") for t in toks[bs:be]):
            continue
        ptoks = toks[b1 + 1:b2] if toks[b1].text == "|" else []
        d, cut = 0, None
        for j, t in enumerate(ptoks):
            if t.text in ("(", "[", "<"):
                d += 1
            elif t.text in (")", "]", ">"):
                d -= 1
            elif t.text == ":" and d == 0:
                cut = j
                break
            elif t.text == "," and d == 0:
                cut = -1
                break
        if cut == -1:
            continue
        if cut is not None:
            ptoks = ptoks[:cut]
        pat = text[ptoks[0].start:ptoks[-1].end] if ptoks else None
        if name in ("map", "and_then", "filter", "map_err", "is_some_and", "map_or", "or_else") and pat is None:
            continue
        if name == "ok_or_else" and pat is not None:
            continue
        try:
            k = chain_start(toks, b0 - 4)
        except SpliceError:
            continue
        head, tail = {
            "map": (" { Some(%s) => Some(" % pat, "), None => None })"),
            "and_then": (" { Some(%s) => (" % pat, "), None => None })"),
            "filter": (" { Some(vx_f) => if { let %s = &vx_f; " % pat, " } { Some(vx_f) } else { None }, None => None })"),
            "map_err": (" { Ok(vx_o) => Ok(vx_o), Err(%s) => Err(" % pat, ") })"),
            "unwrap_or_else": ((" { Some(vx_o) => vx_o, None => (", ") })") if pat is None else
                               (" { Ok(vx_o) => vx_o, Err(%s) => (" % pat, ") })")),
            "ok_or_else": (" { Some(vx_o) => Ok(vx_o), None => Err(", ") })"),
            "is_some_and": (" { Some(%s) => (" % pat, "), None => false })"),
            "or_else": (" { Ok(vx_o) => Ok(vx_o), Err(%s) => (" % pat, ") })"),
            "map_or": (" { Some(%s) => (" % pat, "), None => %s })" % dflt),
        }[name]
        if result_form and name in ("map", "and_then", "map_or"):
            # second attempt for a function in which the Option forms did not type-check: the receiver is a Result
            head, tail = {
                "map": (" { Ok(%s) => Ok(" % pat, "), Err(vx_e) => Err(vx_e) })"),
                "and_then": (" { Ok(%s) => (" % pat, "), Err(vx_e) => Err(vx_e) })"),
                "map_or": (" { Ok(%s) => (" % pat, "), Err(_) => %s })" % dflt),
            }[name]
        edits.append((toks[k].start, toks[k].start, "(match ", "R20a"))
        edits.append((toks[b0 - 3].start, toks[b2].end, head, "R20b"))
        edits.append((toks[be].start, toks[be].end, tail, "R20c"))
    return edits


# ----------------------------------------------------------------------------------------------

def find_loops(toks: List[Tok], lo: int, hi: int) -> List[Tuple[int, int]]:
    """(keyword token index, index of the '{' opening the loop body) in source order"""
    res = []
    i = lo
    while i < hi:
        t = toks[i]
        if t.kind == "ident" and t.text in ("while", "for", "loop"):
            if t.text == "for" and toks[i + 1].text == "<":     # for<'a> bound
                i += 1
                continue
            depth = 0
            k = i + 1
            while k < hi:
                x = toks[k].text
                if toks[k].kind == "punct":
                    if x in ("(", "["):
                        depth += 1
                    elif x in (")", "]"):
                        depth -= 1
                    elif x == "{" and depth == 0:
                        break
                k += 1
            res.append((i, k))
        i += 1
    return res


def statement_starts(toks: List[Tok], body_open: int, body_close: int):
    """(token index, brace depth) of every statement / tail-expression start inside the body; depth 1 = function body.
    Tokens inside parentheses or brackets never start a statement."""
    res = []
    depth = 0
    paren = 0
    expect = False
    for i in range(body_open, body_close + 1):
        t = toks[i]
        if t.kind == "punct" and t.text in ("(", "["):
            paren += 1
            expect = False
            continue
        if t.kind == "punct" and t.text in (")", "]"):
            paren -= 1
            continue
        if t.kind == "punct" and t.text == "{":
            depth += 1
            expect = paren == 0
            continue
        if t.kind == "punct" and t.text == "}":
            depth -= 1
            expect = paren == 0
            continue
        if t.kind == "punct" and t.text in (";",):
            expect = paren == 0
            continue
        if t.kind == "punct" and t.text == "=>":
            expect = False
            continue
        if expect and paren == 0:
            if not (t.kind == "ident" and t.text == "else") and not (t.kind == "punct" and t.text in (",", ".", "?", ")")):
                res.append((i, depth))
            expect = False
    return res


def find_closures(toks: List[Tok], lo: int, hi: int):
    """closures `|params| body` in source order -> (bar1, bar2, body_first_tok, body_last_tok_exclusive)"""
    res = []
    i = lo
    while i < hi:
        t = toks[i]
        if t.kind == "punct" and t.text in ("|", "||") and i > lo:
            prev = toks[i - 1]
            starts_expr = (prev.kind == "punct" and prev.text in ("(", ",", "=", "{", ";", "=>")) or \
                          (prev.kind == "ident" and prev.text in ("move", "return"))
            if starts_expr:
                if t.text == "||":
                    b2 = i
                else:
                    b2 = i + 1
                    d = 0
                    while not (toks[b2].text == "|" and d == 0):
                        if toks[b2].text in ("(", "[", "<"):
                            d += 1
                        elif toks[b2].text in (")", "]", ">"):
                            d -= 1
                        b2 += 1
                # body: until ',' or closing bracket at depth 0
                k = b2 + 1
                if toks[k].text == "{":
                    e = match_close(toks, k) + 1
                else:
                    d = 0
                    e = k
                    while e < hi:
                        x = toks[e]
                        if x.kind == "punct":
                            if x.text in ("(", "[", "{"):
                                d += 1
                            elif x.text in (")", "]", "}"):
                                if d == 0:
                                    break
                                d -= 1
                            elif x.text in (",", ";") and d == 0:
                                break
                        e += 1
                res.append((i, b2, k, e))
                # nested closures inside the body are found by continuing the scan
        i += 1
    return res


class Splicer:
    def __init__(self, repo: str, contracts_dir: str, force_external=None, r20_result=None):
        self.force_external = dict(force_external or {})   # fn key -> reason: emit unverified from the start
        self.r20_result = set(r20_result or ())             # fn keys in which R20 uses the Result forms of map / and_then / map_or
        self.repo = repo
        self.cdir = contracts_dir
        self.sources: Dict[str, rsparse.SourceFile] = {}
        for mod, rel in REPO_FILES.items():
            p = os.path.join(repo, rel)
            try:
                self.sources[mod] = rsparse.parse_file(p, mod)
            except Exception as e:  # noqa
                raise SpliceError("cannot parse %s: %s" % (p, e))
        self.lines: List[Line] = []
        self.defaults: Dict[str, str] = {}
        self.fns: Dict[str, FnInfo] = {}
        self.items_copied: List[str] = []
        self.log: List[str] = []
        self.assoc: Dict[str, str] = {}
        self.helpers_needed: Dict[str, List] = {}     # module -> [(item, parent impl or None)] functions unknown to the contract files but called
        self.unknown_fns: Dict[str, Dict[str, tuple]] = {}

    # ---- emit helpers
    def emit(self, text: str, **meta):
        for ln in text.split("\n"):
            self.lines.append(Line(ln, **meta))

    def lookup(self, key: str):
        mod, path = key.split("::", 1)
        if mod not in self.sources:
            raise SpliceError("unknown module in %s" % key)
        try:
            return (self.sources[mod],) + rsparse.find_item(self.sources[mod], path)
        except KeyError as e:
            raise SpliceError("lost anchor: item %s not found in /repo (%s)" % (key, e))

    # ---- directives
    def do_item(self, key: str, kv):
        sf, it, parent = self.lookup(key)
        text = sf.src[it.start:it.end]
        attrs = kv.get("attrs", "")
        vis = kv.get("vis", self.defaults.get("vis"))
        if vis == "strip":
            # A5: visibility has no run-time meaning; Verus restricts what a public contract may mention
            text = re.sub(r"^pub(\([a-z]+\))?\s+", "", text, count=1)
        line0 = sf.line_of(it.start)
        if attrs:
            self.emit(attrs, kind="ghost")
        for k, ln in enumerate(text.split("\n")):
            self.lines.append(Line(ln, src=(sf.path, line0 + k), kind="real"))
        dropped = [a for a in it.attrs if not a.startswith("//")]
        self.items_copied.append(key)
        self.log.append("item %s copied (%s:%d); attributes dropped: %s; added: %s" %
                        (key, sf.path, line0, dropped, attrs or "none"))

    def do_impl_open(self, key: str, kv=None):
        sf, it, parent = self.lookup(key)
        if parent is None:
            raise SpliceError("impl_open: %s has no enclosing impl" % key)
        hdr = sf.src[parent.start:parent.head_end].rstrip()
        self.assoc = {}
        if kv and kv.get("inherent") == "1":
            # R15: `impl<G> Trait for Type where ..` -> `impl<G> Type where ..`; `Self::Assoc` in the methods is replaced by the
            # right-hand side of the impl's `type Assoc = ..;` (the trait linkage is dropped, the method bodies are verbatim)
            ht = tokenize(hdr)
            k = 1
            if ht[k].text == "<":
                d = 0
                while True:
                    if ht[k].text == "<":
                        d += 1
                    elif ht[k].text == ">":
                        d -= 1
                    elif ht[k].text == ">>":
                        d -= 2
                    k += 1
                    if d == 0:
                        break
            d = 0
            f = None
            for j in range(k, len(ht)):
                if ht[j].text == "<":
                    d += 1
                elif ht[j].text == ">":
                    d -= 1
                elif ht[j].kind == "ident" and ht[j].text == "for" and d == 0:
                    f = j
                    break
            if f is None:
                raise SpliceError("impl_open inherent=1: %s is not a trait impl" % key)
            hdr = hdr[:ht[k].start] + hdr[ht[f + 1].start:]
            body = sf.src[parent.head_end:parent.end]
            for m in re.finditer(r"\btype\s+(\w+)\s*=\s*([^;]+);", body):
                self.assoc[m.group(1)] = m.group(2).strip()
            self.log.append("impl of %s: R15 trait linkage dropped, Self::{%s} substituted" % (key, ",".join(self.assoc)))
        if self.defaults.get("vis") == "strip":
            hdr = re.sub(r"^pub(\([a-z]+\))?\s+", "", hdr, count=1)
        line0 = sf.line_of(parent.start)
        for k, ln in enumerate((hdr + " {").split("\n")):
            self.lines.append(Line(ln, src=(sf.path, line0 + k), kind="real"))

    def do_fn(self, key: str, kv, sections, tmpl_file, tmpl_line, decl_only=False):
        """Splice one function.  If its annotations cannot be placed any more (lost anchor, vanished loop / closure / local), the
        function is still emitted, with its contract but as `#[verifier::external_body]` (body verbatim, not verified), so that the
        rest of the file - and every property that does not depend on this function - can still be decided; the function is marked
        `unverified` and every property it is tagged with becomes undecided (exit 2)."""
        n_lines, n_log = len(self.lines), len(self.log)
        gkey = kv.get("as", key)
        try:
            if gkey in self.force_external and not decl_only:
                raise SpliceError(self.force_external[gkey])
            return self._do_fn(key, kv, sections, tmpl_file, tmpl_line, decl_only=decl_only)
        except SpliceError as e:
            if "not found in /repo" in str(e) and not decl_only and "as" not in kv:
                # the function no longer exists under this name (renamed or removed): nothing is emitted for it; whoever calls it
                # under a new name calls a function no contract knows and is emitted unverified in turn; only the properties that
                # depend on these functions lose their verdict
                del self.lines[n_lines:]
                tags = tuple(t for t in kv.get("tags", "").split(",") if t)
                self.fns[gkey] = FnInfo(key=gkey, tags=tags, repo_file="", repo_line_start=0, repo_line_end=0, sha="", has_body=False,
                                        unverified="function %s does not exist on this tree (renamed or removed)" % key)
                self.log.append("%s: NOT FOUND on this tree; its contract is not emitted, the properties it carries are undecided" % key)
                return
            if decl_only or "spliced twice" in str(e) or "not found in /repo" in str(e) or "is not a fn" in str(e):
                raise
            del self.lines[n_lines:]
            self.fns.pop(gkey, None)
            try:
                self._do_fn(key, kv, [x for x in sections if x[0] == "spec"], tmpl_file, tmpl_line, decl_only=False, external=str(e),
                            stub_body=gkey in self.force_external)
            except SpliceError:
                raise e
            self.log.append("%s: NOT VERIFIED on this tree (emitted as external_body with its contract): %s" % (key, e))

    def _do_fn(self, key: str, kv, sections, tmpl_file, tmpl_line, decl_only=False, external=None, stub_body=False):
        sf, it, parent = self.lookup(key)
        if it.kind != "fn":
            raise SpliceError("%s is not a fn" % key)
        text = sf.src[it.start:it.end]
        base = it.start
        toks = tokenize(text)
        tags = tuple(t for t in kv.get("tags", "").split(",") if t)
        gkey = kv.get("as", key)
        info = FnInfo(key=gkey, tags=tags, repo_file=sf.path, repo_line_start=sf.line_of(it.start),
                      repo_line_end=sf.line_of(it.end), sha=hashlib.sha256(text.encode()).hexdigest()[:16],
                      has_body=it.has_body)
        if gkey in self.fns:
            raise SpliceError("function %s spliced twice" % gkey)
        # ---- locate signature parts
        body_open = None
        if it.has_body:
            d = 0
            for i, t in enumerate(toks):
                if t.kind == "punct":
                    if t.text in ("(", "["):
                        d += 1
                    elif t.text in (")", "]"):
                        d -= 1
                    elif t.text == "{" and d == 0:
                        body_open = i
                        break
            if body_open is None:
                raise SpliceError("no body for %s" % key)
            body_close = match_close(toks, body_open)
            if decl_only:
                raise SpliceError("%s has a body but //@sig was used" % key)
        else:
            if not decl_only:
                raise SpliceError("%s has no body; use //@sig" % key)
            body_open = len(toks) - 1      # the ';'
            body_close = body_open
        edits: List[Tuple[int, int, str, str, dict]] = []   # (start, end, text, kind, meta)  offsets local to `text`
        # a call of a function of this module that no contract file knows (e.g. a freshly extracted helper): it is emitted without
        # a contract and unverified, and so is every function that calls it
        if it.has_body:
            mod0 = key.split("::", 1)[0]
            called = []
            for i in range(body_open, body_close):
                if toks[i].kind == "ident" and toks[i + 1].text == "(" and toks[i].text in self.unknown_fns.get(mod0, {}):
                    called.append(toks[i].text)
            if called:
                for nm in sorted(set(called)):
                    ent = self.unknown_fns[mod0][nm]
                    if ent not in self.helpers_needed.setdefault(mod0, []):
                        self.helpers_needed[mod0].append(ent)
                if not external:
                    raise SpliceError("lost anchor: %s calls function(s) that no contract file knows: %s" % (key, sorted(set(called))))

        def ins(off, s, kind, **meta):
            edits.append((off, off, s, kind, meta))

        # rename
        fn_tok = next(i for i, t in enumerate(toks) if t.kind == "ident" and t.text == "fn")
        if kv.get("vis", self.defaults.get("vis")) == "strip" and toks[0].text == "pub":
            end = toks[1].start
            if toks[1].text == "(":
                end = toks[match_close(toks, 1) + 1].start
            edits.append((toks[0].start, end, "", "A5-vis", {}))
        if kv.get("vis") == "pub" and toks[0].text != "pub":
            edits.append((toks[0].start, toks[0].start, "pub ", "A5-vis", {}))
        name_tok = toks[fn_tok + 1]
        info.gen_name = name_tok.text
        # R15: Self::Assoc -> the impl's associated type (only after `//@impl_open .. inherent=1`)
        for i in range(len(toks) - 2):
            if toks[i].text == "Self" and toks[i + 1].text == "::" and toks[i + 2].text in getattr(self, "assoc", {}):
                edits.append((toks[i].start, toks[i + 2].end, self.assoc[toks[i + 2].text], "R15", {}))
        # A1: named return
        ret = kv.get("ret")
        arrow = None
        d = 0
        for i in range(fn_tok, body_open):
            t = toks[i]
            if t.kind == "punct":
                if t.text in ("(", "[", "<"):
                    d += 1
                elif t.text in (")", "]", ">"):
                    d -= 1
                elif t.text == "->" and d == 0:
                    arrow = i
                    break
        where_tok = None
        d = 0
        for i in range(fn_tok, body_open):
            t = toks[i]
            if t.kind == "punct" and t.text in ("(", "[", "<"):
                d += 1
            elif t.kind == "punct" and t.text in (")", "]", ">"):
                d -= 1
            elif t.kind == "punct" and t.text == ">>":
                d -= 2
            elif t.kind == "ident" and t.text == "where" and d == 0:
                where_tok = i
                break
        if ret and arrow is not None:
            ty_start = toks[arrow + 1].start
            ty_end = toks[(where_tok if where_tok is not None else body_open) - 1].end
            ins(ty_start, "(" + ret + ": ", "A1")
            ins(ty_end, ")", "A1")
        elif ret and arrow is None:
            raise SpliceError("%s: ret= given but function returns ()" % key)
        if where_tok is not None and toks[body_open - 1].text != ",":
            ins(toks[body_open - 1].end, ",", "A1")
        # ---- sections
        loops = find_loops(toks, body_open, body_close) if it.has_body else []
        closures = find_closures(toks, body_open, body_close) if it.has_body else []
        annotated_closures = set()
        info.n_loops = len(loops)
        body_text_lo = toks[body_open].start
        body_text_hi = toks[body_close].end

        def ghost_check(lines, what):
            first = next((l.strip() for l in lines if l.strip()), "")
            first = LABEL_RE.sub("", first).strip()
            if not first.startswith(GHOST_PREFIXES):
                raise SpliceError("%s: %s inserts non-ghost text: %r" % (key, what, first[:60]))

        # `//@local NAME ord=K kind=letmut|let|for`: NAME is the local declared by the K-th binding (`let [mut] x` / `for x in`) of
        # the body.  If that binding now declares another identifier and NAME occurs nowhere in the function any more, the local
        # was renamed: every use of NAME in the ghost text of this function is replaced by the new identifier (never after `.`).
        binds = []
        if it.has_body:
            for i in range(body_open, body_close):
                if toks[i].kind == "ident" and toks[i].text == "let":
                    j = i + 1
                    kind = "let"
                    if toks[j].text == "mut":
                        kind, j = "letmut", j + 1
                    if toks[j].kind == "ident":
                        binds.append((kind, toks[j].text))
                elif toks[i].kind == "ident" and toks[i].text == "for" and toks[i + 1].kind == "ident" and toks[i + 2].text == "in":
                    binds.append(("for", toks[i + 1].text))
        renames = {}
        idents0 = {t.text for t in toks if t.kind == "ident"}
        for (name, args, slines, sline_no) in sections:
            if name == "local":
                parts = args.split()
                lk = parse_kv(" ".join(parts[1:]))
                k = int(lk.get("ord", "-1"))
                if 0 <= k < len(binds) and binds[k][0] == lk.get("kind", binds[k][0]) and binds[k][1] != parts[0] and parts[0] not in idents0:
                    renames[parts[0]] = binds[k][1]
                    self.log.append("%s: local `%s` is now called `%s` (binding %d): ghost text adapted" % (key, parts[0], binds[k][1], k))
        sections = [x for x in sections if x[0] != "local"]
        if renames:
            def ren(l):
                for a, b in renames.items():
                    l = re.sub(r"(?<![.\w])%s(?!\w)" % re.escape(a), b, l)
                return l
            sections = [(n_, ren(a_) if n_ in ("at", "before", "after") else a_, [ren(l) for l in sl], no) for (n_, a_, sl, no) in sections]
        # `#if_local(NAME) text`: the line is kept only while the function still has a local / parameter called NAME
        # (a clause that ties a ghost variable to a program variable must not make the file uncompilable when a change
        # removes that variable; the dropped line is logged)
        real_idents = {t.text for t in toks if t.kind == "ident"}
        guarded = []
        for (name, args, slines, sline_no) in sections:
            out = []
            for l in slines:
                gm = re.match(r"(\s*)#if_local\((\w+)\)\s?(.*)$", l)
                if gm:
                    if gm.group(2) in real_idents:
                        out.append(gm.group(1) + gm.group(3))
                    else:
                        out.append(gm.group(1) + "// (dropped: local `%s` no longer exists)" % gm.group(2))
                        self.log.append("%s: clause dropped, local `%s` no longer exists: %s" % (key, gm.group(2), gm.group(3)[:80]))
                else:
                    out.append(l)
            guarded.append((name, args, out, sline_no))
        sections = guarded
        # R21 (see the loop sections below): where the code spells an R8 loop as `while let Some(p) = x.next()`, the contract's name of
        # the iterator is replaced by x in every section of the function
        r21 = {}
        for (name, args, slines, sline_no) in sections:
            m21 = re.match(r"\s*(\d+)(.*)", args) if name == "loop" else None
            if m21 and parse_kv(m21.group(2)).get("r8") and int(m21.group(1)) < len(loops):
                kw21, br21 = loops[int(m21.group(1))]
                if toks[kw21].text == "while" and toks[kw21 + 1].text == "let" and toks[kw21 + 2].text == "Some" and toks[kw21 + 3].text == "(":
                    c21 = match_close(toks, kw21 + 3)
                    if toks[c21 + 1].text == "=" and toks[c21 + 2].kind == "ident" and toks[c21 + 3].text == "." and \
                            toks[c21 + 4].text == "next" and toks[c21 + 5].text == "(" and toks[c21 + 6].text == ")" and c21 + 7 == br21:
                        r21[parse_kv(m21.group(2))["r8"]] = toks[c21 + 2].text
        if r21:
            def ren21(l):
                for a, b in r21.items():
                    l = re.sub(r"\b%s\b" % re.escape(a), b, l)
                return l
            sections = [(n_, a_, [ren21(l) for l in sl], no) for (n_, a_, sl, no) in sections]
        for (name, args, slines, sline_no) in sections:
            meta = dict(tmpl=(tmpl_file, sline_no))
            block = "\n".join(slines)
            if name == "spec":
                ins(toks[body_open].start, "\n" + block + "\n", "spec", **meta)
            elif name == "body_start":
                ghost_check(slines, "body_start")
                ins(toks[body_open].end, "\n" + block + "\n", "ghost", **meta)
            elif name == "tail":
                # R13: name the value of the tail expression:  `E`  ->  `let NAME = E; <ghost> NAME`
                ghost_check(slines, "tail")
                nm = args.strip().split()[0]
                starts = statement_starts(toks, body_open, body_close)
                cands = [i for (i, d) in starts if d == 1]
                if not cands:
                    raise SpliceError("lost anchor: %s: no tail expression" % key)
                ti = cands[-1]
                if toks[body_close - 1].text == ";":
                    raise SpliceError("lost anchor: %s: body has no tail expression" % key)
                edits.append((toks[ti].start, toks[ti].start, "let %s = " % nm, "R13a", {}))
                edits.append((toks[body_close - 1].end, toks[body_close - 1].end, ";\n", "R13b", {}))
                edits.append((toks[body_close - 1].end, toks[body_close - 1].end, block + "\n", "ghost", dict(meta)))
                edits.append((toks[body_close - 1].end, toks[body_close - 1].end, nm + "\n", "R13c", {}))
                info.rewrites.append("R13@%s:%d" % (os.path.basename(sf.path), sf.line_of(base + toks[ti].start)))
            elif name == "after_loop":
                idx = int(args.strip().split()[0])
                if idx >= len(loops):
                    raise SpliceError("lost anchor: %s has %d loops, contract names loop %d" % (key, len(loops), idx))
                ghost_check(slines, "after_loop")
                close = match_close(toks, loops[idx][1])
                ins(toks[close].end, "\n" + block + "\n", "ghost", **meta)
            elif name == "loop_end":
                # just before the closing brace of the N-th loop's body
                idx = int(args.strip().split()[0])
                if idx >= len(loops):
                    raise SpliceError("lost anchor: %s has %d loops, contract names loop %d" % (key, len(loops), idx))
                ghost_check(slines, "loop_end")
                close = match_close(toks, loops[idx][1])
                ins(toks[close].start, "\n" + block + "\n", "ghost", **meta)
            elif name == "body_end":
                ghost_check(slines, "body_end")
                ins(toks[body_close].start, "\n" + block + "\n", "ghost", **meta)
            elif name == "loop":
                m = re.match(r"\s*(\d+)(.*)", args)
                if not m:
                    raise SpliceError("%s: bad //@loop" % key)
                idx = int(m.group(1))
                lkv = parse_kv(m.group(2))
                if idx >= len(loops):
                    raise SpliceError("lost anchor: %s has %d loops, contract names loop %d" % (key, len(loops), idx))
                kwi, bri = loops[idx]
                if lkv.get("r8"):
                    # R8: `for PAT in EXPR { BODY }` -> `{ let mut it = EXPR; loop INV { let PAT = match it.next() { Some(x) => x, None => break }; BODY } }`
                    if toks[kwi].text == "while" and toks[kwi + 1].text == "let" and toks[kwi + 2].text == "Some" \
                            and toks[kwi + 3].text == "(":
                        # R21: `while let Some(PAT) = X.next() { BODY }` (X a variable) is the loop R8 produces from `for PAT in E`
                        #      once `let mut X = E;` has been written by hand:  ->  `loop INV { let PAT = match X.next() { Some(v) => v,
                        #      None => break }; BODY }`; the iterator name of the contract text is replaced by X
                        c21 = match_close(toks, kwi + 3)
                        ok21 = toks[c21 + 1].text == "=" and toks[c21 + 2].kind == "ident" and toks[c21 + 3].text == "." and \
                            toks[c21 + 4].text == "next" and toks[c21 + 5].text == "(" and toks[c21 + 6].text == ")" and c21 + 7 == bri
                        if not ok21 or lkv["r8"] not in r21:
                            raise SpliceError("lost anchor: %s loop %d is not a for loop (R8) nor `while let Some(p) = x.next()` (R21)" % (key, idx))
                        xn = toks[c21 + 2].text
                        pat = text[toks[kwi + 4].start:toks[c21 - 1].end]
                        sl21 = slines
                        ghost_check(sl21, "loop %d" % idx)
                        stripped = [x.strip() for x in sl21]
                        cut = stripped.index("//---pre") if "//---pre" in stripped else len(sl21)
                        hdr_block = "\n".join(sl21[:cut])
                        pre_lines = sl21[cut + 1:]
                        edits.append((toks[kwi].start, toks[bri].start, "loop\n", "R21a", {}))
                        edits.append((toks[bri].start, toks[bri].start, hdr_block + "\n", "loop", dict(meta)))
                        edits.append((toks[bri].end, toks[bri].end, "\n", "R21b", {}))
                        edits.append((toks[bri].end, toks[bri].end, "\n".join(pre_lines) + "\n", "ghost", dict(tmpl=(tmpl_file, sline_no + cut + 1))))
                        edits.append((toks[bri].end, toks[bri].end, "let %s = match %s.next() { Some(vx_x) => vx_x, None => break };" % (pat, xn), "R21b", {}))
                        info.rewrites.append("R21@%s:%d" % (os.path.basename(sf.path), sf.line_of(base + toks[kwi].start)))
                        continue
                    if toks[kwi].text != "for":
                        raise SpliceError("lost anchor: %s loop %d is not a for loop (R8)" % (key, idx))
                    k = kwi
                    while toks[k].text != "in":
                        k += 1
                    pat = text[toks[kwi + 1].start:toks[k - 1].end]
                    itn = lkv["r8"]
                    if lkv.get("into"):
                        # a `for` loop calls IntoIterator::into_iter on its operand (identity for iterators)
                        edits.append((toks[kwi].start, toks[k].end, "{ let mut %s = iter::IntoIterator::into_iter(" % itn, "R8a", {}))
                        edits.append((toks[bri].start, toks[bri].start, ")", "R8a", {}))
                    else:
                        edits.append((toks[kwi].start, toks[k].end, "{ let mut %s =" % itn, "R8a", {}))
                    close = match_close(toks, bri)
                    ghost_check(slines, "loop %d" % idx)
                    stripped = [x.strip() for x in slines]
                    cut = stripped.index("//---pre") if "//---pre" in stripped else len(slines)
                    hdr_block = "\n".join(slines[:cut])
                    pre_lines = slines[cut + 1:]
                    if pre_lines:
                        ghost_check(pre_lines, "loop-pre %d" % idx)
                    edits.append((toks[bri].start, toks[bri].start, "; loop\n", "R8b", {}))
                    edits.append((toks[bri].start, toks[bri].start, hdr_block + "\n", "loop", dict(meta)))
                    edits.append((toks[bri].start, toks[bri].start, "{\n", "R8c", {}))
                    edits.append((toks[bri].start, toks[bri].start, "\n".join(pre_lines) + "\n", "ghost", dict(tmpl=(tmpl_file, sline_no + cut + 1))))
                    edits.append((toks[bri].start, toks[bri].end, "let %s = match %s.next() { Some(vx_x) => vx_x, None => break };" % (pat, itn), "R8c", {}))
                    edits.append((toks[close].end, toks[close].end, " }", "R8d", {}))
                    info.rewrites.append("R8@%s:%d" % (os.path.basename(sf.path), sf.line_of(base + toks[kwi].start)))
                    continue
                if "iter" in lkv:
                    if toks[kwi].text != "for":
                        raise SpliceError("lost anchor: %s loop %d is not a for loop" % (key, idx))
                    k = kwi
                    while toks[k].text != "in":
                        k += 1
                    ins(toks[k].end, " " + lkv["iter"] + ":", "A2")
                if "kw" in lkv and toks[kwi].text != lkv["kw"]:
                    # R17: `loop { if C { break; } BODY }` is the `while !(C) { BODY }` the contract was written for (the exit
                    # test is the first statement of the body and nothing precedes it)
                    ok17 = False
                    if lkv["kw"] == "while" and toks[kwi].text == "loop" and toks[bri + 1].text == "if":
                        d17, j17 = 0, bri + 2
                        while j17 < len(toks) and not (toks[j17].text == "{" and d17 == 0):
                            d17 += toks[j17].text in ("(", "[")
                            d17 -= toks[j17].text in (")", "]")
                            j17 += 1
                        if toks[j17 + 1].text == "break" and toks[j17 + 2].text == ";" and toks[j17 + 3].text == "}" \
                                and toks[j17 + 4].text != "else":
                            cond = text[toks[bri + 2].start:toks[j17 - 1].end]
                            edits.append((toks[kwi].start, toks[kwi].end, "while !(" + cond + ")", "R17a", {}))
                            edits.append((toks[bri + 1].start, toks[j17 + 3].end, "", "R17b", {}))
                            info.rewrites.append("R17@%s:%d" % (os.path.basename(sf.path), sf.line_of(base + toks[kwi].start)))
                            ok17 = True
                    if not ok17:
                        raise SpliceError("lost anchor: %s loop %d is `%s`, contract expects `%s`" %
                                          (key, idx, toks[kwi].text, lkv["kw"]))
                ghost_check(slines, "loop %d" % idx)
                ins(toks[bri].start, "\n" + block + "\n", "loop", **meta)
            elif name == "closure":
                m = re.match(r"\s*(\d+)(.*)", args)
                idx = int(m.group(1))
                ckv = parse_kv(m.group(2))
                if idx >= len(closures):
                    raise SpliceError("lost anchor: %s has %d closures, contract names closure %d" %
                                      (key, len(closures), idx))
                b1, b2, bs, be = closures[idx]
                annotated_closures.add(idx)
                orig_params = [t.text for t in toks[b1 + 1:b2] if t.kind == "ident"]
                new_params = ckv.get("params", "")
                # parameter names = identifiers before the type annotation of each top-level parameter
                new_names = []
                depth_p, seg, segs = 0, "", []
                for ch in new_params:
                    if ch in "([<":
                        depth_p += 1
                    elif ch in ")]>":
                        depth_p -= 1
                    if ch == "," and depth_p == 0:
                        segs.append(seg)
                        seg = ""
                    else:
                        seg += ch
                segs.append(seg)
                for sg in segs:
                    dp, cut = 0, len(sg)
                    for ci, ch in enumerate(sg):
                        if ch in "([<":
                            dp += 1
                        elif ch in ")]>":
                            dp -= 1
                        elif ch == ":" and dp == 0:
                            cut = ci
                            break
                    new_names += [t.text for t in tokenize(sg[:cut]) if t.kind == "ident" and t.text not in ("mut", "ref")]
                # names must match the closure's own parameter names
                orig_names = [t.text for t in toks[b1 + 1:b2] if t.kind == "ident" and t.text not in ("mut", "ref")]
                bind = ckv.get("bind")
                if bind:
                    # R14: `|PATTERN| BODY` -> `|bind: T| { let PATTERN = bind; BODY }` (Verus accepts only variables as closure parameters)
                    if new_names != [bind]:
                        raise SpliceError("%s closure %d: bind=%s but params name %s" % (key, idx, bind, new_names))
                    if "expect_names" in ckv and ckv["expect_names"].split(",") != orig_names:
                        raise SpliceError("lost anchor: %s closure %d binds %s, contract expects %s" % (key, idx, orig_names, ckv["expect_names"]))
                    info.rewrites.append("R14@%s:%d" % (os.path.basename(sf.path), sf.line_of(base + toks[b1].start)))
                elif new_names != orig_names:
                    raise SpliceError("lost anchor: %s closure %d params %s != contract %s" %
                                      (key, idx, orig_names, new_names))
                edits.append((toks[b1].end, toks[b2].start, new_params, "A3", {}))
                hdr = ""
                if "ret" in ckv:
                    hdr += " -> " + ckv["ret"]
                braces = toks[bs].text != "{"
                pat_text = text[toks[b1].end:toks[b2].start]
                letbind = (" let %s = %s; " % (pat_text.strip(), bind)) if bind else ""
                if bind and not braces:
                    ins(toks[b2].end, hdr + ("\n" + block + "\n" if block.strip() else " "), "A3", **meta)
                    ins(toks[bs].end, letbind, "R14")
                else:
                    ins(toks[b2].end, hdr + ("\n" + block + "\n" if block.strip() else " ") + ("{ " if braces else "") + letbind,
                        "A3", **meta)
                if braces:
                    ins(toks[be - 1].end, " }", "A3")
            elif name in ("before", "after"):
                m = re.match(r"\s*/(.*)/\s*(.*)$", args)
                if not m:
                    raise SpliceError("%s: bad //@%s" % (key, name))
                rx = re.compile(m.group(1))
                akv = parse_kv(m.group(2))
                nth = int(akv.get("nth", "0"))
                ms = list(rx.finditer(text, body_text_lo, body_text_hi))
                if nth >= len(ms):
                    if akv.get("optional") == "1":
                        # a hint for a branch that does not exist in this tree (e.g. an explicit error arm): nothing to annotate
                        self.log.append("%s: optional hint /%s/ #%d not placed (no such place in this tree)" % (key, m.group(1), nth))
                        continue
                    raise SpliceError("lost anchor: %s: /%s/ match %d not found (%d matches)" %
                                      (key, m.group(1), nth, len(ms)))
                if "count" in akv and int(akv["count"]) != len(ms):
                    raise SpliceError("lost anchor: %s: /%s/ expected %s matches, found %d" %
                                      (key, m.group(1), akv["count"], len(ms)))
                ghost_check(slines, name)
                off = ms[nth].start() if name == "before" else ms[nth].end()
                ins(off, "\n" + block + "\n", "ghost", **meta)
            elif name == "at":
                akv = parse_kv(args)
                ghost_check(slines, "at")
                starts = statement_starts(toks, body_open, body_close)
                if args.strip().startswith("tail"):
                    cands = [i for (i, d) in starts if d == 1]
                    if not cands:
                        raise SpliceError("lost anchor: %s: no tail expression" % key)
                    ti = cands[-1]
                else:
                    depth = int(akv.get("depth", "1"))
                    kw = akv.get("kw")
                    nth = int(akv.get("nth", "0"))
                    cands = [i for (i, d) in starts if d == depth and (kw is None or toks[i].text == kw)]
                    ti = cands[nth] if nth < len(cands) else None
                    why = None
                    if ti is None:
                        why = "statement depth=%d kw=%s nth=%d not found (%d candidates)" % (depth, kw, nth, len(cands))
                    elif "expect" in akv and not re.match(akv["expect"], text[toks[ti].start:]):
                        why = "statement at depth=%s kw=%s nth=%s does not look like /%s/: %r" % (
                            akv.get("depth"), akv.get("kw"), akv.get("nth"), akv["expect"], text[toks[ti].start:toks[ti].start + 50])
                    if why is not None and "call" in akv:
                        # second way to name the same place: the statement that contains the K-th call of NAME (survives a
                        # restructured statement list; the ordinal form survives an exchanged callee)
                        cname, _, ck = akv["call"].partition(":")
                        ck = int(ck or "0")
                        calls = [i for i in range(body_open, body_close) if toks[i].kind == "ident" and toks[i].text == cname
                                 and toks[i + 1].text == "("]
                        if ck < len(calls):
                            prev = [i for (i, d) in starts if i <= calls[ck]]
                            if prev:
                                ti, why = prev[-1], None
                                self.log.append("%s: anchor by ordinal lost, placed by call %s" % (key, akv["call"]))
                    if "expect" in akv and kw is not None and os.environ.get("VX_AUDIT_UNIQUE"):
                        na = len([i for (i, d) in starts if toks[i].text == kw and re.match(akv["expect"], text[toks[i].start:])])
                        self.log.append("AUDIT %s | %s | any-depth matches=%d unique_flag=%s" % (key, args.strip(), na, akv.get("unique")))
                    if why is not None and "expect" in akv and kw is not None and akv.get("unique") == "1":
                        # third way, only for anchors marked unique=1 (on the unchanged tree exactly one statement of the body, at any
                        # depth, starts with the keyword and looks like the expected text): the statement was moved to another
                        # nesting depth (a condition split into nested ifs, an extra block); if there is still exactly one such
                        # statement, that is the place.  Without the mark a surviving sibling could be mistaken for the lost
                        # statement and a misplaced hint would turn into a failed proof (seen with preserved/r12).
                        anyd = [i for (i, d) in starts if toks[i].text == kw and re.match(akv["expect"], text[toks[i].start:])]
                        if len(anyd) == 1:
                            ti, why = anyd[0], None
                            self.log.append("%s: anchor by depth lost, placed at the only statement matching /%s/" % (key, akv["expect"]))
                    if why is not None:
                        raise SpliceError("lost anchor: %s: %s" % (key, why))
                if args.strip().startswith("tail") and "expect" in akv and not re.match(akv["expect"], text[toks[ti].start:]):
                    raise SpliceError("lost anchor: %s: tail expression does not look like /%s/: %r" %
                                      (key, akv["expect"], text[toks[ti].start:toks[ti].start + 50]))
                ins(toks[ti].start, "\n" + block + "\n", "ghost", **meta)
            elif name == "all":
                pass        # handled with the R11 rewrite below
            else:
                raise SpliceError("%s: unknown section %s" % (key, name))
        open_cl = [c for ci, c in enumerate(closures) if ci not in annotated_closures]
        info.open_closures = 0 if external else len(open_cl)
        # ---- mechanical rewrites
        all_sections = {}
        for (name, args, slines, sline_no) in sections:
            if name == "all":
                ghost_check(slines, "all")
                all_sections[int(args.strip())] = (slines, sline_no)
        if external:
            info.unverified = external
            if stub_body:
                # the body was rejected by the verifier / by rustc in the verification context (a stand-in trait bound, a rewrite
                # that no longer fits): it is not verified anyway, so it is left out altogether
                edits.append((toks[body_open].start, toks[body_close].end, "{ unimplemented!() }", "stub", {}))
        for (s, e, rep, rule) in ([] if external else mechanical_rewrites(text, toks, kv.get("r12", self.defaults.get("r12")), open_cl, key in self.r20_result)):
            meta = {}
            if rule == "R11c":
                m = re.search(r"/\*@ALL(\d+)@\*/", rep)
                k = int(m.group(1))
                if k in all_sections:
                    slines, sline_no = all_sections.pop(k)
                    # the loop annotation becomes its own chunk so that its labels are mapped
                    pre, post = rep[:m.start()], rep[m.end():]
                    stripped = [x.strip() for x in slines]
                    cut_pre = stripped.index("//---pre") if "//---pre" in stripped else len(slines)
                    cut_body = stripped.index("//---body") if "//---body" in stripped else len(slines)
                    hdr_lines = slines[:min(cut_pre, cut_body)]
                    pre_lines = slines[cut_pre + 1:cut_body] if cut_pre < len(slines) else []
                    body_lines = slines[cut_body + 1:] if cut_body < len(slines) else []
                    if pre_lines:
                        ghost_check(pre_lines, "all-pre")
                    if body_lines:
                        ghost_check(body_lines, "all-body")
                    mid0, rest_ = post.split("/*@ALLPRE@*/")
                    mid, post2 = rest_.split("/*@ALLBODY@*/")
                    edits.append((s, s, pre, rule, {}))
                    edits.append((s, s, "\n".join(hdr_lines), "loop", dict(tmpl=(tmpl_file, sline_no))))
                    edits.append((s, s, mid0, rule, {}))
                    edits.append((s, s, "\n".join(pre_lines), "ghost", dict(tmpl=(tmpl_file, sline_no + cut_pre + 1))))
                    edits.append((s, s, mid, rule, {}))
                    edits.append((s, s, "\n".join(body_lines), "ghost", dict(tmpl=(tmpl_file, sline_no + cut_body + 1))))
                    edits.append((s, e, post2, rule, {}))
                    info.rewrites.append("%s@%s:%d" % (rule, os.path.basename(sf.path), sf.line_of(base + s)))
                    continue
                raise SpliceError("lost anchor: %s: .all() call %d has no //@all section" % (key, k))
            edits.append((s, e, rep, rule, meta))
            info.rewrites.append("%s@%s:%d" % (rule, os.path.basename(sf.path), sf.line_of(base + s)))
            if rule == "R20a":
                info.open_closures -= 1
        if all_sections:
            raise SpliceError("lost anchor: %s: //@all %s has no matching .all() call" % (key, sorted(all_sections)))
        if "rename" in kv:
            edits.append((name_tok.start, name_tok.end, kv["rename"], "rename", {}))
            info.gen_name = kv["rename"]
        # ---- apply: build chunks
        edits = [e for _, e in sorted(enumerate(edits), key=lambda p: (p[1][0], p[1][1] != p[1][0], p[0]))]
        for a, b in zip(edits, edits[1:]):
            if b[0] < a[1]:
                raise SpliceError("%s: overlapping edits at %d" % (key, b[0]))
        chunks = []     # (text, kind, meta, orig_off or None)
        pos = 0
        for (s, e, rep, kind, meta) in edits:
            if s > pos:
                chunks.append((text[pos:s], "real", {}, pos))
            chunks.append((rep, kind, meta, None))
            pos = e
        chunks.append((text[pos:], "real", {}, pos))
        # ---- round trip: removing insertions and undoing rewrites must give the original text back
        rebuilt = []
        p2 = 0
        for (s, e, rep, kind, meta) in edits:
            rebuilt.append(text[p2:s])
            rebuilt.append(text[s:e])
            p2 = e
        rebuilt.append(text[p2:])
        if "".join(rebuilt) != text:
            raise SpliceError("round trip failed for %s" % key)
        # ---- emit with source map
        if external:
            self.lines.append(Line("#[verifier::external_body]", fn=gkey, tmpl=(tmpl_file, tmpl_line), kind="ghost"))
        info.gen_line_start = len(self.lines) + 1
        pieces = []      # (fragment without newline, meta) ; None = newline
        for (ctext, kind, meta, off) in chunks:
            parts = ctext.split("\n")
            labelled = kind in ("spec", "loop", "ghost", "A3") and meta.get("tmpl")
            cur_label, cur_tags = None, ()
            consumed = 0
            for pi, part in enumerate(parts):
                if pi > 0:
                    pieces.append(None)
                if off is not None:
                    m = dict(kind="real", src=(sf.path, sf.line_of(base + off + consumed)))
                else:
                    m = dict(kind="ghost", tmpl=meta.get("tmpl"))
                    if labelled:
                        lm = LABEL_RE.match(part)
                        if lm:
                            cur_tags = tuple(lm.group(2).split(","))
                            cur_label = lm.group(3).strip()
                            info.labels.append(cur_label)
                            part = lm.group(1) + part[lm.end():]
                        elif re.match(r"\s*(requires|ensures|invariant|invariant_except_break|decreases)\b", part):
                            cur_label, cur_tags = None, ()
                        m["label"], m["tags"] = cur_label, cur_tags
                pieces.append((part, m))
                consumed += len(part) + 1
        cur, cur_meta = "", None
        for pc in pieces + [None]:
            if pc is None:
                m = cur_meta or {}
                self.lines.append(Line(cur, fn=gkey, label=m.get("label"), tags=m.get("tags", ()), src=m.get("src"),
                                       tmpl=m.get("tmpl"), kind=m.get("kind", "ghost")))
                cur, cur_meta = "", None
                continue
            part, m = pc
            if part.strip() and cur_meta is None:
                cur_meta = m
            cur += part
        info.gen_line_end = len(self.lines)
        self.fns[gkey] = info

    # ---- template driver
    def run(self):
        files = sorted(f for f in os.listdir(self.cdir) if f.endswith(".rs"))
        # functions of /repo that no contract file mentions
        known = set()
        for f in files:
            for ln in open(os.path.join(self.cdir, f), encoding="utf-8"):
                m = re.match(r"\s*//@(fn|sig) (.*)$", ln)
                if m:
                    known.add(split_key(m.group(2))[0])
        common = {"trim_cr", "new", "fmt", "source", "from", "next", "len", "clone", "default", "eq", "into_iter", "drop", "next_back", "size_hint"}
        for mod, sf in self.sources.items():
            tab = {}
            def walk(items, parent, prefix):
                for it in items:
                    if it.kind == "fn":
                        k = mod + "::" + prefix + it.name
                        if k not in known and it.name not in common and it.has_body:
                            tab[it.name] = (it, parent)
                    elif it.children:
                        nm = it.self_key or it.name or ""
                        walk(it.children, it if it.kind in ("impl", "trait") else parent, (nm + "::") if nm else prefix)
            walk(sf.items, None, "")
            self.unknown_fns[mod] = tab
        cur_lemma, lem_label, lem_tags = None, None, ()
        cur_mod = None
        for f in files:
            path = os.path.join(self.cdir, f)
            self.defaults = {}
            tl = open(path, encoding="utf-8").read().split("\n")
            i = 0
            while i < len(tl):
                ln = tl[i]
                s = ln.strip()
                if s.startswith("//@item "):
                    key, kvs = split_key(s[len("//@item "):])
                    self.do_item(key, parse_kv(kvs))
                    i += 1
                elif s.startswith("//@default "):
                    self.defaults.update(parse_kv(s[len("//@default "):]))
                    i += 1
                elif s.startswith("//@impl_open "):
                    key, kvs = split_key(s[len("//@impl_open "):])
                    try:
                        self.lookup(key)
                    except SpliceError:
                        # the member that names the impl block was renamed or removed: any other function of the same section of
                        # the contract file (up to the next impl_open) that still exists names the same block
                        j2, alt = i + 1, None
                        while j2 < len(tl) and not tl[j2].strip().startswith("//@impl_open "):
                            s2 = tl[j2].strip()
                            if s2.startswith("//@fn ") or s2.startswith("//@sig "):
                                k2, kv2 = split_key(s2.split(None, 1)[1])
                                if "as" not in parse_kv(kv2) and k2.rsplit("::", 1)[0] == key.rsplit("::", 1)[0]:
                                    try:
                                        self.lookup(k2)
                                        alt = k2
                                        break
                                    except SpliceError:
                                        pass
                            j2 += 1
                        if alt is not None:
                            self.log.append("impl_open: %s not found, impl block located through %s" % (key, alt))
                            key = alt
                    self.do_impl_open(key, parse_kv(kvs))
                    i += 1
                elif s.startswith("//@fn ") or s.startswith("//@sig "):
                    decl = s.startswith("//@sig ")
                    key, kvs = split_key(s.split(None, 1)[1])
                    kv = parse_kv(kvs)
                    sections = []
                    j = i + 1
                    cur = None
                    while j < len(tl) and tl[j].strip() != "//@end":
                        sj = tl[j].strip()
                        if sj.startswith("//@"):
                            parts = sj[3:].split(None, 1)
                            cur = (parts[0], parts[1] if len(parts) > 1 else "", [], j + 1)
                            sections.append(cur)
                        else:
                            if cur is None:
                                if sj:
                                    raise SpliceError("%s:%d: text outside a section" % (f, j + 1))
                            else:
                                cur[2].append(tl[j])
                        j += 1
                    if j >= len(tl):
                        raise SpliceError("%s:%d: //@fn without //@end" % (f, i + 1))
                    self.do_fn(key, kv, sections, f, i + 1, decl_only=decl)
                    i = j + 1
                elif s.startswith("//@"):
                    raise SpliceError("%s:%d: unknown directive %s" % (f, i + 1, s))
                else:
                    mm = re.match(r"\s*pub mod (\w+) \{", ln)
                    if mm:
                        cur_mod = {"lib_": "lib"}.get(mm.group(1), mm.group(1))
                    if ln.strip() == "} // verus!" and self.helpers_needed.get(cur_mod):
                        sfm = self.sources[cur_mod]
                        for (hit, hparent) in self.helpers_needed.pop(cur_mod):
                            htext = re.sub(r"^pub(\([a-z]+\))?\s+", "", sfm.src[hit.start:hit.end], count=1)
                            # the body is not verified and only its signature matters to the callers: it is left out, so that
                            # constructs outside the subset (a `for` over a stand-in iterator, ..) cannot make the file ill-typed
                            try:
                                ht2 = tokenize(htext)
                                d2 = 0
                                for t2 in ht2:
                                    if t2.text in ("(", "["):
                                        d2 += 1
                                    elif t2.text in (")", "]"):
                                        d2 -= 1
                                    elif t2.text == "{" and d2 == 0:
                                        htext = htext[:t2.start] + "{ unimplemented!() }"
                                        break
                            except Exception:
                                pass
                            if hparent is not None:
                                hdr = sfm.src[hparent.start:hparent.head_end].rstrip()
                                block = hdr + " {\n#[verifier::external_body]\n" + htext + "\n}"
                            else:
                                block = "#[verifier::external_body]\n" + htext
                            self.log.append("%s::%s: function unknown to the contract files, emitted unverified and without contract" % (cur_mod, hit.name))
                            for bl in block.split("\n"):
                                self.lines.append(Line(bl, kind="real", src=(sfm.path, sfm.line_of(hit.start))))
                    # contract text outside //@fn: lemmas and spec functions.  A labelled clause `[Cxx|label] ..` of a lemma is an
                    # obligation of the listed properties; the label stays in force until the next clause keyword or label.
                    m = re.search(r"\bproof fn (\w+)", ln)
                    if m:
                        cur_lemma, lem_label, lem_tags = m.group(1), None, ()
                    lm = LABEL_RE.match(ln)
                    if lm:
                        lem_tags = tuple(lm.group(2).split(","))
                        lem_label = lm.group(3).strip()
                        ln = lm.group(1) + ln[lm.end():]
                    elif re.match(r"\s*(requires|ensures|decreases|recommends)\b", ln) or re.match(r"\s*\{", ln):
                        lem_label, lem_tags = None, ()
                    if lem_label:
                        self.lines.append(Line(ln, tmpl=(f, i + 1), fn="lemma:" + str(cur_lemma), label=lem_label, tags=lem_tags))
                    else:
                        self.lines.append(Line(ln, tmpl=(f, i + 1)))
                    i += 1
        return self

    def output(self) -> str:
        return "\n".join(l.text for l in self.lines) + "\n"

    def source_map(self):
        return [dict(fn=l.fn, label=l.label, tags=list(l.tags), src=l.src, tmpl=l.tmpl, kind=l.kind) for l in self.lines]


def tree_hash(repo: str, contracts_dir: str) -> str:
    h = hashlib.sha256()
    for rel in sorted(REPO_FILES.values()):
        h.update(rel.encode())
        h.update(open(os.path.join(repo, rel), "rb").read())
    for root in (contracts_dir, os.path.dirname(os.path.abspath(__file__))):
        for f in sorted(os.listdir(root)):
            if f.endswith((".rs", ".py")):
                h.update(f.encode())
                h.update(open(os.path.join(root, f), "rb").read())
    return h.hexdigest()[:20]


if __name__ == "__main__":
    repo = sys.argv[1] if len(sys.argv) > 1 else "/repo"
    cdir = sys.argv[2] if len(sys.argv) > 2 else "/verif/contracts"
    out = sys.argv[3] if len(sys.argv) > 3 else "/dev/stdout"
    sp = Splicer(repo, cdir).run()
    open(out, "w").write(sp.output())
    if out != "/dev/stdout":
        json.dump(dict(lines=sp.source_map(), fns={k: v.__dict__ for k, v in sp.fns.items()}, log=sp.log),
                  open(out + ".map.json", "w"), indent=0)
