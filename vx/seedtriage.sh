#!/bin/bash
# triage of freshly delivered changes (development aid): usage seedtriage.sh <outdir> <prop>...
# expects <outdir>/<prop>/{a,b,c}_patch.diff + _demo.rs and a scratch worktree /tmp/seedwt_<prop>;
# confirms each change (tests pass with it, demo fails with it and passes without), then runs every check on the patched worktree
# and prints first the verdict of the change's OWN property (that is the check that has to report it)
OUT=$1; shift
for P in "$@"; do
  WT=/tmp/seedwt_$P
  for k in a b c d; do
    D=$OUT/$P
    [ -f $D/${k}_patch.diff ] || continue
    echo "=== $P-$k"
    CARGO_TARGET_DIR=$WT/target timeout 900 bash /verif/vx/seedconfirm.sh $WT $D/${k}_patch.diff $D/${k}_demo.rs 2>&1 | tr '\n' ' '; echo
    ( cd $WT && git checkout -q -- . && git apply $D/${k}_patch.diff )
    res=$(VX_NO_CANARY=1 python3 /verif/vx/check.py all --repo $WT 2>&1)
    echo "OWN: $(echo "$res" | grep -E "^(VIOLATION|UNDECIDED|OK) property=$P" | cut -c1-200)"
    echo "$res" | grep -E "^(VIOLATION|UNDECIDED)|failed obligation" | cut -c1-230 | head -10
    ( cd $WT && git checkout -q -- . )
  done
done
echo ALLDONE
