#!/usr/bin/env python3
"""Writes /verif/MANIFEST.json from the table below (kept next to the code so it stays current)."""
import json, os
VERIF = os.path.dirname(os.path.dirname(os.path.abspath(__file__)))

NA = {
    "C07": "quantifies over thread interleavings of mpsc channels / scoped thread pools in parallel.rs; Kani has no threads and Verus reasons about concurrency only through its own permission types, so the real code cannot be put under contract without replacing it by a model (a different technique family)",
    "C08": "deadlock freedom / termination over all schedules of parallel.rs; no contract language installed can state or decide it on the real code (see C07)",
    "C15": "error delivery through channels under all interleavings in parallel.rs; same obstacle as C07",
    "C16": "bound on data sets created inside a function that spawns threads, plus a schedule invariant; same obstacle as C07",
    "C18": "heap allocation is not observable state in Verus (vstd models no allocator / Vec capacity) nor quantifiable in Kani over all inputs; the sub-claim 'buffer capacity unchanged when records fit' is proved under C09",
    "C19": "behaviour lives in #[derive(Serialize, Deserialize)] expansions and in the user's serializer; there is no function body in /repo to put a contract on and no serde model in vstd",
}

# property -> (technique, level text, level note, design ref)
CLAIMED = {}

def load_claims():
    p = os.path.join(VERIF, "vx", "claims.json")
    return json.load(open(p)) if os.path.exists(p) else {}

def main():
    claims = load_claims()
    checks = []
    for pid in sorted(claims):
        c = claims[pid]
        checks.append(dict(
            property_id=pid,
            quick_cmd="./check %s --tier quick" % pid,
            thorough_cmd="./check %s --tier thorough" % pid,
            evidence_file="evidence/%s.json" % pid,
            replay_cmd_template="./check replay {path}",
            engine="vx",
            level_claimed=dict(category="proof", text=c["text"], design_ref=c.get("design_ref", "DESIGN.md section 4 / 11")),
            level_note=c["note"],
            technique=c.get("technique", "contract-based deductive verification (Verus) of functions extracted mechanically from /repo on every run"),
        ))
    na = [dict(property_id=k, reason=v) for k, v in sorted(NA.items())]
    for pid in ["C%02d" % i for i in range(1, 21)]:
        if pid not in claims and pid not in NA:
            na.append(dict(property_id=pid, reason="planned (DESIGN.md section 4) but the contracts are not built yet; not claimed until its check exists"))
    man = dict(
        version=1,
        setup_cmd="./setup.sh",
        hooks=dict(guard="markschl_seq_io_verif", enable="none needed: contracts are spliced onto functions extracted from /repo; no hook commit exists (guard name reserved, unused)",
                   baseline_off_cmd="cd /repo && cargo test --workspace --no-fail-fast --offline", source_commits=[], add_only=True),
        engines=[dict(name="vx", path="vx/", serves_properties=sorted(claims), kind_free_text="mechanical extraction of /repo functions + contract splicing + Verus (deductive, unbounded); Kani for loop-free leaf functions")],
        checks=checks,
        notes="Exit codes: 0 held, 1 VIOLATION (a listed obligation failed), 2 UNDECIDED (extraction failure, lost anchor, unsupported construct, rlimit). See DESIGN.md.",
        not_applicable=sorted(na, key=lambda x: x["property_id"]),
    )
    json.dump(man, open(os.path.join(VERIF, "MANIFEST.json"), "w"), indent=1)

if __name__ == "__main__":
    main()
