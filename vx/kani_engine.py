#!/usr/bin/env python3
"""Kani leaf engine (DESIGN 3.6): loop-free leaf functions: the policies (contract only assumed in the Verus file) and trim_cr (also proved by Verus; Kani gives the counterexample).
A scratch copy of /repo is made outside /repo and /verif, the harness modules in /verif/kani/*.rs are appended to
the source file named in TARGET (lib.rs, or the module whose private fields the harness needs), `cargo kani` runs, the copy is removed.
Besides the complete policy harnesses and trim_cr there are two bounded stand-ins for the record accessors (fastq_acc.rs, fasta_acc.rs):
popular rewrites of those functions (iterator chains, retain, extracted helpers) put them outside the verified subset, and then these
harnesses still decide - with a counterexample that is an input file."""
import hashlib, json, os, re, shutil, subprocess, tempfile, time

VERIF = os.path.dirname(os.path.dirname(os.path.abspath(__file__)))
KANI_DIR = os.path.join(VERIF, "kani")
CACHE = os.path.join(VERIF, ".cache")

# property -> list of (harness file, harness name, function, bound label)
HARNESSES = {
    "C01": [("trim_cr.rs", "trim_cr_contract", "lib::trim_cr", "bounded: slice length <= 8, arbitrary bytes; counterexample source only - the contract is proved for every slice by Verus"), ("fasta_acc.rs", "fasta_owned_seq_two_lines", "fasta::RefRecord::{head,owned_seq}", "bounded: one record with two sequence lines in an 8-byte buffer, every content and offset triple of the reader's layout; stand-in and counterexample source - the contract is proved for every buffer and any number of lines by Verus")],
    "C02": [("trim_cr.rs", "trim_cr_contract", "lib::trim_cr", "bounded: slice length <= 8, arbitrary bytes; counterexample source only - the contract is proved for every slice by Verus"), ("fastq_acc.rs", "fastq_accessors_trim_one_cr", "fastq::BufferPosition::{head,seq,qual}", "bounded: one record in a 12-byte buffer, every content and offset tuple of the reader's layout; stand-in and counterexample source - the contract is proved for every buffer by Verus")],
    "C04": [("fasta_acc.rs", "fasta_owned_seq_two_lines", "fasta::RefRecord::{head,owned_seq}", "bounded: one record with two sequence lines in an 8-byte buffer, every content and offset triple of the reader's layout; stand-in and counterexample source - the contract is proved for every buffer and any number of lines by Verus")],
    "C12": [("trim_cr.rs", "trim_cr_contract", "lib::trim_cr", "bounded: slice length <= 8, arbitrary bytes; counterexample source only - the contract is proved for every slice by Verus"), ("fastq_acc.rs", "fastq_accessors_trim_one_cr", "fastq::BufferPosition::{head,seq,qual}", "bounded: one record in a 12-byte buffer, every content and offset tuple of the reader's layout; stand-in and counterexample source - the contract is proved for every buffer by Verus"), ("fasta_acc.rs", "fasta_owned_seq_two_lines", "fasta::RefRecord::{head,owned_seq}", "bounded: one record with two sequence lines in an 8-byte buffer, every content and offset triple of the reader's layout; stand-in and counterexample source - the contract is proved for every buffer and any number of lines by Verus")],
    "C13": [("trim_cr.rs", "trim_cr_contract", "lib::trim_cr", "bounded: slice length <= 8, arbitrary bytes; counterexample source only - the contract is proved for every slice by Verus"), ("fastq_acc.rs", "fastq_accessors_trim_one_cr", "fastq::BufferPosition::{head,seq,qual}", "bounded: one record in a 12-byte buffer, every content and offset tuple of the reader's layout; stand-in and counterexample source - the contract is proved for every buffer by Verus"), ("fasta_acc.rs", "fasta_owned_seq_two_lines", "fasta::RefRecord::{head,owned_seq}", "bounded: one record with two sequence lines in an 8-byte buffer, every content and offset triple of the reader's layout; stand-in and counterexample source - the contract is proved for every buffer and any number of lines by Verus")],
    "C09": [("policy.rs", "std_policy_formula", "policy::StdPolicy::grow_to", "complete: loop-free, every current size <= isize::MAX/2"),
            ("policy.rs", "double_until_formula", "policy::DoubleUntil::grow_to", "complete: loop-free, every current size and threshold <= isize::MAX/2"),
            ("policy.rs", "double_until_limited_formula", "policy::DoubleUntilLimited::grow_to",
             "complete: loop-free, every current size and threshold <= isize::MAX/2, every limit")],
}


# harness file -> source file of the scratch copy it is appended to (a child module sees the private fields of its parent)
TARGET = {"trim_cr.rs": "src/lib.rs", "policy.rs": "src/lib.rs", "fastq_acc.rs": "src/fastq.rs", "fasta_acc.rs": "src/fasta.rs"}


def run_for(prop, repo, tier):
    hs = HARNESSES.get(prop, [])
    if not hs:
        return dict(harnesses=[], failed=[])
    # one cache entry per (sources of the tree, harness texts, harness name): the scratch crate always gets every harness file, so
    # the build is the same whichever property asks
    # the code a harness can reach lies in the file it is appended to plus lib.rs (trim_cr); the policy harnesses reach policy.rs only
    def key_of(hf):
        deps = {"trim_cr.rs": ["lib.rs"], "policy.rs": ["policy.rs"], "fastq_acc.rs": ["lib.rs", "fastq.rs"], "fasta_acc.rs": ["lib.rs", "fasta.rs"]}[hf]
        txt = "".join(open(os.path.join(repo, "src", f)).read() for f in deps) + open(os.path.join(KANI_DIR, hf)).read()
        return hashlib.sha256(txt.encode()).hexdigest()[:20]
    os.makedirs(CACHE, exist_ok=True)
    names = sorted({h[1] for h in hs})
    file_of = {h[1]: h[0] for h in hs}
    results, missing, cached = {}, [], True
    cpath = {nm: os.path.join(CACHE, "kani_%s_%s.json" % (key_of(file_of[nm]), nm)) for nm in names}
    for nm in names:
        cp = cpath[nm]
        if os.path.exists(cp):
            results[nm] = json.load(open(cp))
        else:
            missing.append(nm)
    kv = subprocess.run(["cargo", "kani", "--version"], stdout=subprocess.PIPE, text=True).stdout.strip()
    if not missing:
        return select(dict(results=results, wall_s=0.0, cache_hit=True, kani_version=kv), hs)
    # one Kani build at a time across concurrently running checks; whoever waited finds the results in the cache afterwards
    import fcntl
    lk = open(os.path.join(CACHE, "kani.lock"), "w")
    fcntl.flock(lk, fcntl.LOCK_EX)
    still = []
    for nm in missing:
        if os.path.exists(cpath[nm]):
            try:
                results[nm] = json.load(open(cpath[nm]))
                continue
            except Exception:
                pass
        still.append(nm)
    missing = still
    if not missing:
        fcntl.flock(lk, fcntl.LOCK_UN)
        return select(dict(results=results, wall_s=0.0, cache_hit=True, kani_version=kv), hs)
    tmp = tempfile.mkdtemp(prefix="seqio_kani_")
    t0 = time.time()
    try:
        for rel in ("src", "Cargo.toml", "Cargo.lock"):
            s = os.path.join(repo, rel)
            if not os.path.exists(s) and rel == "Cargo.lock":
                s = "/repo/Cargo.lock"        # scratch worktrees do not carry the (untracked) lock file
            d = os.path.join(tmp, rel)
            if os.path.isdir(s):
                shutil.copytree(s, d)
            else:
                shutil.copy(s, d)
        ct = open(os.path.join(tmp, "Cargo.toml")).read()
        ct = re.sub(r"\[\[bench\]\][^\[]*", "", ct)
        open(os.path.join(tmp, "Cargo.toml"), "w").write(ct)
        for hf, target in sorted(TARGET.items()):
            with open(os.path.join(tmp, target), "a") as f:
                f.write(open(os.path.join(KANI_DIR, hf)).read())
        env = dict(os.environ, CARGO_NET_OFFLINE="true")
        for name in missing:
            try:
                # one run gives the verdict and, on failure, the concrete values of the failing execution
                r = subprocess.run(["cargo", "kani", "--harness", name, "-Z", "concrete-playback", "--concrete-playback=print"], cwd=tmp, env=env,
                                   stdout=subprocess.PIPE, stderr=subprocess.STDOUT, text=True, timeout=900)
                txt, rcode = r.stdout, r.returncode
            except subprocess.TimeoutExpired as te:
                txt, rcode = "TIMEOUT after 900 s\n" + str(te.stdout or "")[-1500:], 124
            cex = None
            if "VERIFICATION:- FAILED" in txt:
                vals = [[int(x) for x in m.split(",") if x.strip()] for m in re.findall(r"^\s*vec!\[([0-9, ]*)\],\s*$", txt, re.M)]
                if vals:
                    cex = vals
            ok = "VERIFICATION:- SUCCESSFUL" in txt
            failed = "VERIFICATION:- FAILED" in txt
            results[name] = dict(ok=ok, failed=failed, rc=rcode, tail=txt[-3000:],
                                 failed_checks=re.findall(r"Failed Checks: (.*)", txt)[:10],
                                 time_s=None, counterexample=cex)
            m = re.search(r"Verification Time: ([0-9.]+)s", txt)
            if m:
                results[name]["time_s"] = float(m.group(1))
            if ok or failed:
                tmpf = "%s.%d.tmp" % (cpath[name], os.getpid())
                json.dump(results[name], open(tmpf, "w"))
                os.replace(tmpf, cpath[name])
        res = dict(results=results, wall_s=round(time.time() - t0, 1), cache_hit=False, kani_version=kv)
        return select(res, hs)
    finally:
        shutil.rmtree(tmp, ignore_errors=True)
        try:
            fcntl.flock(lk, fcntl.LOCK_UN)
            lk.close()
        except Exception:
            pass


def decode_cex(name, vals):
    """turn Kani's concrete values into the arguments of the function under contract"""
    if not vals:
        return None
    if name == "trim_cr_contract" and len(vals) >= 9:
        buf = [v[0] for v in vals[:8]]
        ln = int.from_bytes(bytes(vals[8]), "little")
        return dict(function="trim_cr", line=buf[:ln])
    def num(v):
        return int.from_bytes(bytes(v), "little")
    if name == "fastq_accessors_trim_one_cr" and len(vals) >= 16:
        buf = [v[0] for v in vals[:12]]
        seq, sep, qual, p1 = (num(v) for v in vals[12:16])
        return dict(function="fastq accessors", file=buf[:p1] + [10], offsets=dict(seq=seq, sep=sep, qual=qual, end=p1))
    if name == "fasta_owned_seq_two_lines" and len(vals) >= 11:
        buf = [v[0] for v in vals[:8]]
        a, b, c = (num(v) for v in vals[8:11])
        return dict(function="fasta owned_seq", file=buf[:c] + [10], offsets=dict(a=a, b=b, c=c))
    if name == "std_policy_formula" and len(vals) >= 1:
        return dict(function="StdPolicy::grow_to", current_size=num(vals[0]))
    if name == "double_until_formula" and len(vals) >= 2:
        return dict(function="DoubleUntil::grow_to", current_size=num(vals[0]), double_until=num(vals[1]))
    if name == "double_until_limited_formula" and len(vals) >= 3:
        return dict(function="DoubleUntilLimited::grow_to", current_size=num(vals[0]), double_until=num(vals[1]), limit=num(vals[2]))
    return dict(raw=vals)


def HARNESSES_ALL():
    out = []
    for v in HARNESSES.values():
        out += v
    return out


def select(res, hs):
    harnesses, failed, undecided = [], [], None
    for (hf, name, fn, bound) in hs:
        r = res["results"].get(name)
        if r is None:
            undecided = "harness %s did not run" % name
            continue
        harnesses.append(dict(harness=name, function=fn, kind=bound, ok=r["ok"], time_s=r["time_s"]))
        if r["failed"]:
            failed.append(dict(harness=name, function=fn, message="Kani: VERIFICATION FAILED: " + "; ".join(r["failed_checks"]), output=r["tail"],
                               counterexample=decode_cex(name, r.get("counterexample"))))
        elif not r["ok"]:
            undecided = "kani did not finish for %s (rc=%s): %s" % (name, r["rc"], r["tail"][-300:])
    return dict(harnesses=harnesses, failed=failed, undecided=undecided, wall_s=res.get("wall_s"), cache_hit=res.get("cache_hit"),
                kani_version=res.get("kani_version"))


if __name__ == "__main__":
    import sys
    print(json.dumps(run_for(sys.argv[1], sys.argv[2] if len(sys.argv) > 2 else "/repo", "quick"), indent=1)[:3000])
