#!/usr/bin/env python3
"""Kani leaf engine (DESIGN 3.6): loop-free leaf functions: the policies (contract only assumed in the Verus file) and trim_cr (also proved by Verus; Kani gives the counterexample).
A scratch copy of /repo is made outside /repo and /verif, the harness modules in /verif/kani/*.rs are appended to
src/lib.rs of the copy, `cargo kani` runs, the copy is removed."""
import hashlib, json, os, re, shutil, subprocess, tempfile, time

VERIF = os.path.dirname(os.path.dirname(os.path.abspath(__file__)))
KANI_DIR = os.path.join(VERIF, "kani")
CACHE = os.path.join(VERIF, ".cache")

# property -> list of (harness file, harness name, function, bound label)
HARNESSES = {
    "C01": [("trim_cr.rs", "trim_cr_contract", "lib::trim_cr", "bounded: slice length <= 8, arbitrary bytes; counterexample source only - the contract is proved for every slice by Verus")],
    "C02": [("trim_cr.rs", "trim_cr_contract", "lib::trim_cr", "bounded: slice length <= 8, arbitrary bytes; counterexample source only - the contract is proved for every slice by Verus")],
    "C12": [("trim_cr.rs", "trim_cr_contract", "lib::trim_cr", "bounded: slice length <= 8, arbitrary bytes; counterexample source only - the contract is proved for every slice by Verus")],
    "C13": [("trim_cr.rs", "trim_cr_contract", "lib::trim_cr", "bounded: slice length <= 8, arbitrary bytes; counterexample source only - the contract is proved for every slice by Verus")],
    "C09": [("policy.rs", "std_policy_formula", "policy::StdPolicy::grow_to", "complete: loop-free, every current size <= isize::MAX/2"),
            ("policy.rs", "double_until_formula", "policy::DoubleUntil::grow_to", "complete: loop-free, every current size and threshold <= isize::MAX/2"),
            ("policy.rs", "double_until_limited_formula", "policy::DoubleUntilLimited::grow_to",
             "complete: loop-free, every current size and threshold <= isize::MAX/2, every limit")],
}


def run_for(prop, repo, tier):
    hs = HARNESSES.get(prop, [])
    if not hs:
        return dict(harnesses=[], failed=[])
    files = sorted({h[0] for h in hs})
    lib = open(os.path.join(repo, "src/lib.rs")).read() + open(os.path.join(repo, "src/policy.rs")).read()
    key = hashlib.sha256((lib + "".join(open(os.path.join(KANI_DIR, f)).read() for f in files)).encode()).hexdigest()[:20]
    os.makedirs(CACHE, exist_ok=True)
    cpath = os.path.join(CACHE, "kani_%s.json" % key)
    if os.path.exists(cpath):
        res = json.load(open(cpath))
        res["cache_hit"] = True
        return select(res, hs)
    tmp = tempfile.mkdtemp(prefix="seqio_kani_")
    t0 = time.time()
    try:
        for rel in ("src", "Cargo.toml", "Cargo.lock"):
            s = os.path.join(repo, rel)
            if not os.path.exists(s) and rel == "Cargo.lock":
                s = "/repo/Cargo.lock"        # scratch worktrees do not carry the (untracked) lock file
            d = os.path.join(tmp, rel)
            if os.path.isdir(s):
                shutil.copytree(s, d)
            else:
                shutil.copy(s, d)
        ct = open(os.path.join(tmp, "Cargo.toml")).read()
        ct = re.sub(r"\[\[bench\]\][^\[]*", "", ct)
        open(os.path.join(tmp, "Cargo.toml"), "w").write(ct)
        with open(os.path.join(tmp, "src/lib.rs"), "a") as f:
            for hf in files:
                f.write(open(os.path.join(KANI_DIR, hf)).read())
        env = dict(os.environ, CARGO_NET_OFFLINE="true")
        out = {}
        for hf in files:
            pass
        names = sorted({h[1] for h in HARNESSES_ALL() if h[0] in files})
        results = {}
        for name in names:
            r = subprocess.run(["cargo", "kani", "--harness", name], cwd=tmp, env=env, stdout=subprocess.PIPE, stderr=subprocess.STDOUT, text=True, timeout=1800)
            txt = r.stdout
            cex = None
            if "VERIFICATION:- FAILED" in txt:
                # ask Kani for the concrete values of the failing execution
                r2 = subprocess.run(["cargo", "kani", "--harness", name, "-Z", "concrete-playback", "--concrete-playback=print"], cwd=tmp, env=env,
                                    stdout=subprocess.PIPE, stderr=subprocess.STDOUT, text=True, timeout=1800)
                vals = [[int(x) for x in m.split(",") if x.strip()] for m in re.findall(r"^\s*vec!\[([0-9, ]*)\],\s*$", r2.stdout, re.M)]
                if vals:
                    cex = vals
            ok = "VERIFICATION:- SUCCESSFUL" in txt
            failed = "VERIFICATION:- FAILED" in txt
            checks = re.findall(r"\*\* (\d+) of (\d+) failed", txt)
            results[name] = dict(ok=ok, failed=failed, rc=r.returncode, tail=txt[-3000:],
                                 failed_checks=re.findall(r"Failed Checks: (.*)", txt)[:10],
                                 time_s=None, counterexample=cex)
            m = re.search(r"Verification Time: ([0-9.]+)s", txt)
            if m:
                results[name]["time_s"] = float(m.group(1))
        res = dict(results=results, wall_s=round(time.time() - t0, 1), cache_hit=False,
                   kani_version=subprocess.run(["cargo", "kani", "--version"], stdout=subprocess.PIPE, text=True).stdout.strip())
        if all(r["ok"] or r["failed"] for r in results.values()):
            json.dump(res, open(cpath, "w"))
        return select(res, hs)
    finally:
        shutil.rmtree(tmp, ignore_errors=True)


def decode_cex(name, vals):
    """turn Kani's concrete values into the arguments of the function under contract"""
    if not vals:
        return None
    if name == "trim_cr_contract" and len(vals) >= 9:
        buf = [v[0] for v in vals[:8]]
        ln = int.from_bytes(bytes(vals[8]), "little")
        return dict(function="trim_cr", line=buf[:ln])
    def num(v):
        return int.from_bytes(bytes(v), "little")
    if name == "std_policy_formula" and len(vals) >= 1:
        return dict(function="StdPolicy::grow_to", current_size=num(vals[0]))
    if name == "double_until_formula" and len(vals) >= 2:
        return dict(function="DoubleUntil::grow_to", current_size=num(vals[0]), double_until=num(vals[1]))
    if name == "double_until_limited_formula" and len(vals) >= 3:
        return dict(function="DoubleUntilLimited::grow_to", current_size=num(vals[0]), double_until=num(vals[1]), limit=num(vals[2]))
    return dict(raw=vals)


def HARNESSES_ALL():
    out = []
    for v in HARNESSES.values():
        out += v
    return out


def select(res, hs):
    harnesses, failed, undecided = [], [], None
    for (hf, name, fn, bound) in hs:
        r = res["results"].get(name)
        if r is None:
            undecided = "harness %s did not run" % name
            continue
        harnesses.append(dict(harness=name, function=fn, kind=bound, ok=r["ok"], time_s=r["time_s"]))
        if r["failed"]:
            failed.append(dict(harness=name, function=fn, message="Kani: VERIFICATION FAILED: " + "; ".join(r["failed_checks"]), output=r["tail"],
                               counterexample=decode_cex(name, r.get("counterexample"))))
        elif not r["ok"]:
            undecided = "kani did not finish for %s (rc=%s): %s" % (name, r["rc"], r["tail"][-300:])
    return dict(harnesses=harnesses, failed=failed, undecided=undecided, wall_s=res.get("wall_s"), cache_hit=res.get("cache_hit"),
                kani_version=res.get("kani_version"))


if __name__ == "__main__":
    import sys
    print(json.dumps(run_for(sys.argv[1], sys.argv[2] if len(sys.argv) > 2 else "/repo", "quick"), indent=1)[:3000])
