#!/usr/bin/env python3
"""Decision procedure: property -> obligations -> exit 0 / 1 (VIOLATION) / 2 (UNDECIDED).  DESIGN.md 3.5.

usage:  check.py <Cxx>|all [--tier quick|thorough] [--repo /repo] [--no-cache]
        check.py replay <file>
"""
import argparse
import hashlib
import json
import os
import re
import shutil
import subprocess
import sys
import time

HERE = os.path.dirname(os.path.abspath(__file__))
VERIF = os.path.dirname(HERE)
sys.path.insert(0, HERE)
import splice  # noqa
from rsparse import tokenize  # noqa

CACHE = os.path.join(VERIF, ".cache")
CONTRACTS = os.path.join(VERIF, "contracts")
EVID = os.path.join(VERIF, "evidence")
REPLAYS = os.path.join(VERIF, "replays")

ALL_PROPS = ["C%02d" % i for i in range(1, 21)]

FAIL_MSGS = (
    "postcondition not satisfied", "precondition not satisfied", "invariant not satisfied",
    "assertion failed", "possible arithmetic underflow/overflow", "possible division by zero",
    "decreases not satisfied", "loop ensures not satisfied", "loop invariant not satisfied",
    "could not prove termination", "possible bit shift underflow/overflow", "unreachable",
    "failed to prove", "assertion not satisfied", "type invariant not satisfied",
    "cannot show invariant holds", "not satisfied", "unable to prove",
)
RLIMIT_MSGS = ("Resource limit", "rlimit", "resource limit")

CHEAT_RE = re.compile(r"\b(assume\s*\(|admit\s*\(|external_body|assume_specification|external_type_specification|"
                      r"exec_allows_no_decreases_clause|external_fn_specification|#\[verifier::external\]|uninterp)")


def sh(cmd, **kw):
    return subprocess.run(cmd, stdout=subprocess.PIPE, stderr=subprocess.PIPE, text=True, **kw)


def verus_version():
    try:
        return sh(["verus", "--version"]).stdout.strip().split("\n")[0]
    except Exception:
        return "unknown"


class Undecided(Exception):
    pass


def load_known_findings():
    p = os.path.join(VERIF, "known_findings.json")
    if not os.path.exists(p):
        return []
    return json.load(open(p)).get("findings", [])


def write_atomic(path, text):
    """the file never exists half-written (another check of the same tree may be reading it); unchanged content is left alone"""
    try:
        if os.path.exists(path) and open(path).read() == text:
            return
    except Exception:
        pass
    tmp = "%s.%d.tmp" % (path, os.getpid())
    open(tmp, "w").write(text)
    os.replace(tmp, path)


def run_verus(gen_path, rlimit, threads=16, extra=(), multiple_errors="8"):
    cmd = ["verus", gen_path, "--output-json", "--time", "--multiple-errors", multiple_errors, "--error-format=json",
           "--rlimit", str(rlimit), "--num-threads", str(threads), "--triggers-mode", "silent"] + list(extra)
    t0 = time.time()
    r = sh(cmd, cwd=os.path.dirname(gen_path))
    wall = time.time() - t0
    try:
        js = json.loads(r.stdout)
    except Exception:
        js = None
    diags = []
    for ln in r.stderr.split("\n"):
        ln = ln.strip()
        if ln.startswith("{"):
            try:
                diags.append(json.loads(ln))
            except Exception:
                pass
    return dict(cmd=" ".join(cmd), rc=r.returncode, json=js, diags=diags, wall=wall,
                stderr_tail=r.stderr[-3000:] if js is None else "")


def fn_of_span(prim, lines):
    """function key whose generated text contains the primary span (None for contract text / no span)"""
    if prim is None or not prim.get("file_name", "").endswith(("gen.rs", "gen_canary.rs")):
        return None
    ln = prim.get("line_start", 0)
    if 1 <= ln <= len(lines):
        f = lines[ln - 1].get("fn")
        return f if f and not str(f).startswith("lemma:") else None
    return None


class Rejected(Exception):
    def __init__(self, fns, msgs):
        Exception.__init__(self, msgs)
        self.fns, self.msgs = fns, msgs


def classify(diags, lines, fns):
    """map verifier diagnostics to failed obligations / other errors"""
    failed, other, rlimit = [], [], []
    for d in diags:
        if d.get("level") != "error":
            continue
        msg = d.get("message", "")
        if msg.startswith("aborting due to"):
            continue
        spans = d.get("spans", [])
        prim = next((s for s in spans if s.get("is_primary")), spans[0] if spans else None)
        if any(m in msg for m in RLIMIT_MSGS):
            fn_rl = None
            if prim is not None and prim["file_name"].endswith(("gen.rs", "gen_canary.rs")) and 1 <= prim["line_start"] <= len(lines):
                fn_rl = lines[prim["line_start"] - 1].get("fn")
            rlimit.append(dict(message=msg, fn=fn_rl, line=prim["line_start"] if prim else None))
            continue
        code = (d.get("code") or {}).get("code") if isinstance(d.get("code"), dict) else d.get("code")
        if code:
            # a rustc error (E0277 "trait bound .. is not satisfied", E0425, ..): the generated file does not type-check,
            # which is a construct outside the verified subset or a lost identifier - never a failed obligation
            other.append(dict(message="rustc %s: %s" % (code, msg), rendered=d.get("rendered", "")[:1500], fn=fn_of_span(prim, lines)))
            continue
        if not any(m in msg for m in FAIL_MSGS) or prim is None:
            other.append(dict(message=msg, rendered=d.get("rendered", "")[:1500], fn=fn_of_span(prim, lines)))
            continue

        def meta(s):
            ln = s["line_start"]
            if s["file_name"].endswith("gen.rs") or s["file_name"].endswith("gen_canary.rs"):
                if 1 <= ln <= len(lines):
                    return lines[ln - 1], ln
            return None, ln
        pm, pln = meta(prim)
        fn = pm["fn"] if pm else None
        if fn is None or str(fn).startswith("lemma:"):
            # the primary span is contract text (e.g. the ensures of a stand-in trait method): the obligation belongs to the
            # spliced function another span points into (its body / signature), if there is one
            for s2 in spans:
                m2, _ = meta(s2)
                if m2 and m2.get("fn") and not str(m2["fn"]).startswith("lemma:"):
                    fn = m2["fn"]
                    break
        if fn is None and pm is not None:
            # ghost code of the contracts (lemma, spec) failed: attribute to the template location
            fn = "contracts:%s:%s" % tuple(pm["tmpl"]) if pm.get("tmpl") else None
        label, tags = None, []
        clause_text = None
        for s in spans:
            m, ln = meta(s)
            if m and m.get("label"):
                label, tags = m["label"], m["tags"]
                clause_text = (s.get("text") or [{}])[0].get("text", "").strip()
                break
        src = pm["src"] if pm and pm.get("src") else None
        if src is None and pm is not None:
            # ghost line inside a function: nearest real line above
            k = pln - 1
            while k > 0 and not (lines[k - 1].get("src") and lines[k - 1].get("fn") == pm.get("fn")):
                k -= 1
            if k > 0:
                src = lines[k - 1]["src"]
        if src is None:
            # primary span on contract text (a labelled clause): any other span of the diagnostic that lies in real code
            for s2 in spans:
                m2, _ = meta(s2)
                if m2 and m2.get("src") and m2.get("fn") == fn:
                    src = m2["src"]
                    break
        # a failure whose primary span is a ghost line of a proof hint (assert / lemma call inside `proof { }`), as opposed to a
        # contract clause (labelled or not: requires / ensures / invariant lines) or a line of real code
        kinds = [(meta(s2)[0] or {}).get("kind") for s2 in spans]
        hint = label is None and ("assertion failed" in msg or "precondition not satisfied" in msg) and \
            bool(kinds) and all(k == "ghost" for k in kinds)
        failed.append(dict(fn=fn, label=label, tags=tags, message=msg, gen_line=pln, repo=src, clause=clause_text,
                           rendered=d.get("rendered", "")[:2500], hint=hint))
    return failed, other, rlimit


IMPLICIT_TOK = {"+", "-", "*", "/", "%", "+=", "-=", "*=", "<<", ">>"}


def count_implicit_sites(text):
    """syntactic count of sites where Verus generates an implicit obligation (overflow, bounds, unwrap, panic, call)"""
    toks = tokenize(text)
    n = 0
    for i, t in enumerate(toks):
        if t.kind == "punct" and t.text in IMPLICIT_TOK:
            n += 1
        elif t.kind == "punct" and t.text == "[" and i > 0 and (toks[i - 1].kind == "ident" or toks[i - 1].text in (")", "]")):
            n += 1
        elif t.kind == "ident" and t.text in ("unwrap", "vx_panic", "while", "loop", "for", "as"):
            n += 1
        elif t.kind == "punct" and t.text == "(" and i > 0 and toks[i - 1].kind == "ident":
            n += 1      # call: callee precondition
    return n


class Session:
    def __init__(self, repo, tier, use_cache=True, canary=True):
        self.repo = repo
        self.tier = tier
        self.use_cache = use_cache
        self.want_canary = canary and os.environ.get("VX_NO_CANARY") != "1"
        self.t0 = time.time()
        self.solo_retries = []

    def prepare(self, force_external=None, r20_result=None):
        self.forced = set(force_external or {})
        self.r20_result = set(r20_result or ())
        try:
            sp = splice.Splicer(self.repo, CONTRACTS, force_external=force_external or {}, r20_result=self.r20_result).run()
        except splice.SpliceError as e:
            raise Undecided("extraction: %s" % e)
        except Exception as e:  # parser crash etc.
            raise Undecided("extraction crashed: %r" % e)
        self.sp = sp
        self.gen = sp.output()
        self.lines = sp.source_map()
        self.fns = sp.fns
        self.key = hashlib.sha256((self.gen + verus_version()).encode()).hexdigest()[:24]
        self.dir = os.path.join(CACHE, self.key)
        os.makedirs(self.dir, exist_ok=True)
        try:
            os.utime(self.dir, None)        # in use now: a concurrent run must not prune it
        except Exception:
            pass
        # prune old cache entries (keep the 16 newest, and never one that was used in the last half hour)
        try:
            now = time.time()
            ents = sorted((os.path.getmtime(os.path.join(CACHE, d)), d) for d in os.listdir(CACHE) if os.path.isdir(os.path.join(CACHE, d))
                          and d != "evidence_other_trees")
            for mt, d in ents[:-16]:
                if now - mt > 1800:
                    shutil.rmtree(os.path.join(CACHE, d), ignore_errors=True)
        except Exception:
            pass
        os.makedirs(self.dir, exist_ok=True)
        self.gen_path = os.path.join(self.dir, "gen.rs")
        write_atomic(self.gen_path, self.gen)

    def canary_text(self):
        """variant with `assert(false)` at the start of every contracted body and loop body"""
        out = []
        self.canaries = {}     # gen line (1-based, in canary file) -> fn
        src_lines = self.gen.split("\n")
        # locate body braces per function via token scan of the generated function text
        inserts = {}   # (line idx, col) -> fn
        for key, info in self.fns.items():
            if not info.has_body or getattr(info, "unverified", None):
                continue
            lo, hi = info.gen_line_start - 1, info.gen_line_end
            text = "\n".join(src_lines[lo:hi])
            toks = tokenize(text)
            # body brace: first '{' at depth 0 after the `fn` keyword that is not inside ( ) [ ] and follows the spec
            # -> the splicer puts the spec right before the body brace; find it as the brace that starts the last
            #    top-level block of the item
            depth, body_open = 0, None
            opens = []
            for i, t in enumerate(toks):
                if t.kind != "punct":
                    continue
                if t.text in "([{":
                    if t.text == "{" and depth == 0:
                        opens.append(i)
                    depth += 1
                elif t.text in ")]}":
                    depth -= 1
            if not opens:
                continue
            body_open = opens[-1]
            offs = [toks[body_open].end]
            for (kw, br) in splice.find_loops(toks, body_open, len(toks)):
                # skip spec-level `forall`... only exec loops have while/for/loop keywords at statement level
                offs.append(toks[br].end)
            for off in offs:
                ln = text.count("\n", 0, off)
                col = off - (text.rfind("\n", 0, off) + 1)
                inserts.setdefault(lo + ln, []).append((col, key))
        n = 0
        for idx, ln in enumerate(src_lines):
            if idx in inserts:
                pieces, prev = [], 0
                for col, key in sorted(inserts[idx]):
                    pieces.append(ln[prev:col])
                    pieces.append(" proof { assert(false); } ")
                    prev = col
                    n += 1
                    self.canaries.setdefault(idx + 1, []).append(key)
                pieces.append(ln[prev:])
                out.append("".join(pieces))
            else:
                out.append(ln)
        self.n_canaries = n
        return "\n".join(out)

    def cached(self, name, fn):
        """result of an expensive run, shared between checks of the same tree; safe when several checks run at the same time: one
        process computes under a file lock, the others wait and read its result; files appear atomically (write + rename)"""
        import fcntl
        p = os.path.join(self.dir, name + ".json")

        def load():
            if self.use_cache and os.path.exists(p):
                try:
                    r = json.load(open(p))
                    r["cache_hit"] = True
                    return r
                except Exception:
                    return None
            return None
        r = load()
        if r is not None:
            return r
        with open(p + ".lock", "w") as lk:
            fcntl.flock(lk, fcntl.LOCK_EX)
            try:
                r = load()
                if r is not None:
                    return r
                r = fn()
                r["cache_hit"] = False
                tmp = "%s.%d.tmp" % (p, os.getpid())
                json.dump(r, open(tmp, "w"))
                os.replace(tmp, p)
                return r
            finally:
                fcntl.flock(lk, fcntl.LOCK_UN)

    def verify(self):
        rl = 60 if self.tier == "quick" else 150
        res = self.cached("main_rl%d" % rl, lambda: run_verus(self.gen_path, rl))
        if res["json"] is None:
            raise Undecided("verus produced no JSON (rc=%s): %s" % (res["rc"], res["stderr_tail"][-800:]))
        failed, other, rlimit = classify(res["diags"], self.lines, self.fns)
        if rlimit:
            # A resource limit is never an alarm.  Each function that hit it is re-run alone (its own module context, 3x the limit),
            # first with the same options, then with --multiple-errors 1 (a different query shape): any accepted run is a proof;
            # definite failures of any run are kept; only a function that exhausts every configuration stays undecided.
            still = []
            done = set()
            for r in rlimit:
                k = r.get("fn")
                if k is None or k not in self.fns:
                    still.append(r)
                    continue
                if k in done:
                    continue
                done.add(k)
                mod = k.split("::")[0].replace("lib", "lib_")
                name = self.fns[k].gen_name
                pat = ("*::" + name) if k.count("::") >= 2 else name
                ok = False
                for tag, me in (("a", "8"), ("b", "1")):
                    extra = ["--verify-only-module", mod, "--verify-function", pat]
                    rr = self.cached("solo_%s_%s_rl%d" % (hashlib.sha256(k.encode()).hexdigest()[:8], tag, rl * 3),
                                     lambda: run_verus(self.gen_path, rl * 3, extra=extra, multiple_errors=me))
                    if rr["json"] is None:
                        continue
                    f2, o2, rl2 = classify(rr["diags"], self.lines, self.fns)
                    res["wall"] += rr["wall"]
                    seen = {(f["fn"], f["label"], f["message"], str(f["repo"])) for f in failed}
                    failed += [f for f in f2 if (f["fn"], f["label"], f["message"], str(f["repo"])) not in seen]
                    vr2 = rr["json"].get("verification-results", {})
                    if not rl2 and not o2 and (vr2.get("verified", 0) > 0 or f2):
                        ok = True
                        self.solo_retries.append(dict(function=k, config="alone, rlimit x3, --multiple-errors %s" % me,
                                                      verified=vr2.get("verified"), errors=vr2.get("errors")))
                        break
                if not ok:
                    still.append(r)
            rlimit = still
        self.main = res
        self.failed, self.other, self.rlimit = failed, other, rlimit
        vr = res["json"].get("verification-results", {})
        if other or vr.get("encountered-vir-error"):
            msgs = "; ".join(o["message"][:200] for o in other[:3]) or "vir error"
            where = {o.get("fn") for o in other if not o["message"].startswith("aborting")}
            if other and None not in where and all(k in self.fns and k not in self.forced for k in where):
                # every complaint lies inside spliced functions: retry once with those functions emitted unverified
                raise Rejected(sorted(where), msgs)
            raise Undecided("verifier rejected the generated file (construct outside the subset or contract file error): " + msgs)
        # canary run
        if not self.want_canary:
            self.canary, self.canary_missing, self.canaries_failed = None, [], 0
            self.canaries = {}
            self.n_canaries = 0
            return
        cpath = os.path.join(self.dir, "gen_canary.rs")
        write_atomic(cpath, self.canary_text())
        cres = self.cached("canary", lambda: run_verus(cpath, 10))
        self.canary = cres
        hit = set()
        for d in cres["diags"]:
            if d.get("level") == "error" and "assertion failed" in d.get("message", ""):
                for s in d.get("spans", []):
                    if s.get("is_primary"):
                        hit.add(s["line_start"])
        self.canary_missing = [(ln, ks) for ln, ks in self.canaries.items() if ln not in hit]
        self.canaries_failed = sum(len(ks) for ln, ks in self.canaries.items() if ln in hit)

    def cheats(self):
        found = []
        for i, ln in enumerate(self.gen.split("\n")):
            code = ln.split("//")[0]
            for m in CHEAT_RE.finditer(code):
                meta = self.lines[i]
                found.append(dict(what=m.group(1).strip(" ("), gen_line=i + 1, tmpl=meta.get("tmpl"), fn=meta.get("fn"),
                                  text=ln.strip()[:140]))
        return found

    def smt_times(self):
        out = {}
        try:
            for m in self.main["json"]["times-ms"]["smt"]["smt-run-module-times"]:
                for f in m.get("function-breakdown", []):
                    out[f["function"]] = dict(ms=f["time"], rlimit=f.get("rlimit"), success=f.get("success"))
        except Exception:
            pass
        return out


def obligations_for(sess, prop):
    """labelled clauses tagged prop + implicit sites of the functions tagged prop"""
    labelled = []
    seen = set()
    for i, m in enumerate(sess.lines):
        if m.get("label") and prop in m.get("tags", []) and (m["fn"], m["label"]) not in seen:
            seen.add((m["fn"], m["label"]))
            labelled.append(dict(fn=m["fn"], label=m["label"], gen_line=i + 1, tmpl=m.get("tmpl")))
    fns = [k for k, v in sess.fns.items() if prop in v.tags or any(o["fn"] == k for o in labelled)]
    implicit = {}
    src_lines = sess.gen.split("\n")
    for k in fns:
        v = sess.fns[k]
        if prop in v.tags and v.has_body:
            real = "\n".join(src_lines[i] for i in range(v.gen_line_start - 1, v.gen_line_end) if sess.lines[i]["kind"] == "real")
            implicit[k] = count_implicit_sites(real)
    return labelled, fns, implicit


def failed_for(sess, prop):
    out = []
    for f in sess.failed:
        tags = set(f["tags"] or [])
        fn = f["fn"]
        if f["label"] is None:
            # implicit obligation or unlabelled clause: belongs to the properties the function is tagged with (+ C06)
            if fn in sess.fns:
                tags |= set(sess.fns[fn].tags)
                if not any(m in f["message"] for m in ("postcondition not satisfied", "invariant not satisfied", "loop ensures")):
                    tags |= {"C06"}      # safety obligations: overflow, bounds, unwrap, preconditions, termination, ghost asserts
            elif fn and fn.startswith("contracts:"):
                tags |= {"*contract-side*"}
        if prop in tags or "*" in tags:
            out.append(f)
    return out


def write_evidence(sess, prop, tier, failed, known, undecided=None, wall=0.0, kani=None, selftest=None):
    os.makedirs(EVID, exist_ok=True)
    labelled, fns, implicit = obligations_for(sess, prop) if sess and hasattr(sess, "lines") else ([], [], {})
    n_lab = len(labelled)
    n_imp = sum(implicit.values())
    n_fail = len({(f["fn"], f["label"] or f["message"] + str(f["repo"])) for f in failed})
    cheats = sess.cheats() if sess and hasattr(sess, "gen") else []
    smt = sess.smt_times() if sess and hasattr(sess, "main") else {}
    fn_rows = []
    for k in fns:
        v = sess.fns[k]
        short = k.split("::")[-1]
        t = next((x for n, x in smt.items() if n.endswith("::" + v.gen_name) and k.split("::")[0].replace("lib", "lib_") in n), None)
        fn_rows.append(dict(function=k, repo="%s:%d-%d" % (v.repo_file, v.repo_line_start, v.repo_line_end), sha=v.sha,
                            rewrites=v.rewrites, labelled_clauses=[o["label"] for o in labelled if o["fn"] == k],
                            implicit_sites=implicit.get(k, 0), smt_ms=t["ms"] if t else None))
    ev = dict(
        property_id=prop, tier=tier, seed=int(os.environ.get("VERIF_SEED", "0") or 0), level="proof",
        coverage=dict(
            obligations=n_lab + n_imp,
            discharged=max(0, n_lab + n_imp - n_fail) if undecided is None else 0,
            labelled_obligations=n_lab, implicit_obligation_sites=n_imp,
            rule="obligation = one labelled requires/ensures/invariant clause tagged with this property, or one syntactic site "
                 "(arithmetic op, index, cast, unwrap, call, loop) inside a real function tagged with it, for which Verus "
                 "generates an overflow / bounds / precondition / termination condition; discharged = obligations minus "
                 "those the verifier reported as failed",
            checker_cmd=sess.main["cmd"] if sess and hasattr(sess, "main") else "verus gen.rs (not run)",
            trusted_base=sorted({"%s: %s" % (c["what"], c["text"][:90]) for c in cheats}),
            functions_under_contract=fn_rows,
            back_end="Verus 0.2026.09.13 / Z3 (bundled)",
            verus_results=(sess.main.get("json") or {}).get("verification-results") if sess and hasattr(sess, "main") else None,
            verus_wall_s=round(sess.main["wall"], 2) if sess and hasattr(sess, "main") else None,
            verus_cache_hit=sess.main.get("cache_hit") if sess and hasattr(sess, "main") else None,
            smt_total_ms=(((sess.main.get("json") or {}).get("times-ms") or {}).get("smt") or {}).get("total") if sess and hasattr(sess, "main") else None,
            canaries_expected=getattr(sess, "n_canaries", 0), canaries_failed_as_required=getattr(sess, "canaries_failed", 0),
            samples=[dict(label=o["label"], function=o["fn"], contract="%s:%s" % tuple(o["tmpl"]) if o.get("tmpl") else None)
                     for o in labelled[:6]],
            failed=[dict(fn=f["fn"], label=f["label"], message=f["message"], repo=f["repo"]) for f in failed],
            known_findings_reported=known,
            undecided=undecided,
            resource_limit_retries=getattr(sess, "solo_retries", []),
            functions_not_verified_on_this_tree=[dict(function=k, reason=v.unverified) for k, v in (sess.fns.items() if sess and hasattr(sess, "fns") else [])
                                                 if getattr(v, "unverified", None)],
            mutation_self_test=selftest,
            assumption_checks=[getattr(sess, "stub_check", None)] if getattr(sess, "stub_check", None) else [],
            kani=kani,
            extraction_log=sess.sp.log[:80] if sess and hasattr(sess, "sp") else [],
        ),
        assumptions=ASSUMPTIONS,
        wall_s=round(wall, 2),
        violations=len(failed),
    )
    if undecided is not None:
        # no verdict, hence no proof-level evidence: say so instead of reporting zero discharged obligations as a proof
        ev["level"] = "other"
        ev["coverage"]["explanation"] = "this run reached no verdict (exit 2), nothing was proved or refuted: " + str(undecided)
    # /verif/evidence describes the tree at /repo; runs on any other tree (regressions, self-tests) write elsewhere
    repo_dir = os.path.realpath(getattr(sess, "repo", "/repo")) if sess else "/repo"
    out_dir = EVID if repo_dir == os.path.realpath("/repo") else os.path.join(CACHE, "evidence_other_trees")
    os.makedirs(out_dir, exist_ok=True)
    json.dump(ev, open(os.path.join(out_dir, prop + ".json"), "w"), indent=1)


ASSUMPTIONS = [
    "T1 buffer_redux::BufReader behaves as the stub specs in contracts/00_prelude.rs (written from buffer-redux 1.0.2 StdBuf, includes its unsafe code)",
    "T2 the io::Read/Seek source delivers consecutive bytes of a fixed file, returns 0 only at end of input, a failing call changes nothing, finitely many consecutive Interrupted",
    "T3 memchr::memchr / Memchr return the first / all indices of the needle",
    "T4 assumed specifications of std items listed in trusted_base (split_last, split, splitn, chunks, cmp::min/max, Option::copied, mem::take/replace, to_vec/to_owned, bool::then_some, str::from_utf8 with uninterpreted valid_utf8/str_bytes, the external_body wrapper vx_str_splitn + VxStrSplitN::next standing for str::splitn(n, ASCII char), ...); vstd's specs of Vec/slice/Option/Result",
    "T5b lending a sink (&mut W) to another writer function keeps what the sink will finally contain (axiom_lend_keeps_fin)",
    "T5 io::Write sink appends exactly the bytes passed to write_all",
    "T6 user policies return None or a size strictly larger than the current one (proved for the three built-in policies)",
    "T7 derived Clone/PartialEq/PartialOrd behave structurally",
    "T8 soundness of Verus 0.2026.09.13 + Z3, Kani 0.68 + CBMC 6.11, rustc; usize is 64-bit",
    "T9 file length < 2^62, allocations succeed and never exceed isize::MAX bytes",
    "Dropped from the verified text: doc comments, #[inline]/#[allow] attributes, Debug/serde derives, Display/Error impls, from_path*, parallel.rs",
    "Rewrites applied mechanically by the extractor and listed per function: R7 for-in-&mut -> iter_mut, R8 for -> loop+next, R9 byte-string literal -> array, R10 assert! -> if/panic, R11 .all(f) -> its loop, R12 `?` -> match/From, R13 named tail, R14 closure tuple parameter, R15 trait impl -> inherent impl (owned-record iterators), R16 .nth(K) unrolled, R17 loop{if c{break}..} -> while !c {..}, R18 `if let P(&LIT) = e {a} else {b}` -> `match e { P(x) if *x == LIT => a, _ => b }`, R19 `s.splitn(n, 'c')` on a str -> trusted wrapper vx_str_splitn(s, n, 'c') whose body is that call, R20 Option/Result combinator over an un-annotated closure -> the match it is defined as, R21 `while let Some(p) = x.next()` -> the R8 loop; ghost text follows renamed locals (//@local)",
]


def open_closure_fn(sess, f):
    """the failed obligation lies in a function whose body (on this tree) holds a closure that no contract section annotates: an
    un-annotated closure is opaque to the verifier (nothing is known about its result), so a postcondition that depends on it
    cannot be proved whatever the closure computes - such a failure is no verdict about the code"""
    v = sess.fns.get(f["fn"]) if f.get("fn") else None
    return bool(v is not None and getattr(v, "open_closures", 0) > 0)


def decide(prop, sess, tier):
    known = load_known_findings()
    failed = failed_for(sess, prop)
    if failed and all(f.get("hint") or open_closure_fn(sess, f) for f in failed) and any(open_closure_fn(sess, f) for f in failed):
        raise Undecided("the only failed obligations lie in %s, whose body contains a closure without a contract on this tree (its "
                        "result is unknown to the verifier): undecided, not a violation" %
                        sorted({str(f["fn"]) for f in failed if open_closure_fn(sess, f)}))
    labelled, fns, implicit = obligations_for(sess, prop)
    if not labelled and not implicit:
        raise Undecided("zero obligations for %s (vacuous)" % prop)
    if failed and all(f.get("hint") for f in failed):
        # only assertions / lemma calls inside proof hints failed for this property, no contract clause and no obligation of the
        # code: the proof script no longer fits the function (e.g. a hint now sits at the wrong statement); no verdict
        raise Undecided("only proof hints failed in %s (no contract clause, no obligation of the code): the proof script does not fit "
                        "this tree; undecided, not a violation" % sorted({str(f["fn"]) for f in failed}))
    cside = [f for f in sess.failed if f["label"] is None and f["fn"] and str(f["fn"]).startswith("contracts:")]
    if cside and not failed:
        # a lemma or a stand-in of the contract files failed and no obligation of the code did: the proof script is broken on
        # this tree (context perturbation), which says nothing about the code
        raise Undecided("proof obligation inside the contract files failed (%s: %s): undecided, not a violation" %
                        (cside[0]["fn"], cside[0]["message"]))
    lost = [(k, sess.fns[k].unverified) for k in fns if getattr(sess.fns[k], "unverified", None)]
    if lost and not failed:
        raise Undecided("function(s) this property depends on could not be put under contract on this tree (emitted unverified): %s" %
                        "; ".join("%s: %s" % (k, r[:160]) for k, r in lost))
    if sess.rlimit and not failed:
        hit = [r for r in sess.rlimit if r["fn"] is None or r["fn"] in fns]
        if hit:
            raise Undecided("solver resource limit exceeded in %s (after one retry at 3x): undecided, not a violation" %
                            sorted({str(r["fn"]) for r in hit}))
    if sess.canary_missing:
        mine = [ks for ln, ks in sess.canary_missing if any(k in fns for k in ks)]
        if mine:
            raise Undecided("vacuity canary did not fail in %s: contradictory precondition or invariant" % mine)
    # cheat whitelist
    wl_path = os.path.join(VERIF, "trusted_whitelist.json")
    if os.path.exists(wl_path):
        wl = json.load(open(wl_path))["allowed"]
        for c in sess.cheats():
            if not any(w in c["text"] for w in wl):
                raise Undecided("unlisted trusted item in generated file: %s" % c["text"])
    new, reported = [], []
    for f in failed:
        kf = next((k for k in known if k.get("status", "open") == "open" and k["property"] == prop and k.get("fn") == f["fn"]
                   and k.get("label") == f["label"]), None)
        if kf:
            reported.append("KNOWN-FINDING: property=%s %s" % (prop, kf["what"]))
        else:
            new.append(f)
    return new, sorted(set(reported)), failed


def selftest_for(prop, repo):
    """thorough tier: the check of `prop` must still tell the kept property-breaking changes of that property (seeded/*/patch.diff,
    selftest/unfix_*.patch) from the tree under test: each is applied to a scratch copy of the tree's src/ (never to the tree itself),
    the same extraction + Verus run is repeated on it, and an obligation of `prop` has to fail.  A change that does not apply to the
    tree under test is skipped."""
    import tempfile
    rows = []
    cands = []
    sd = os.path.join(VERIF, "seeded")
    for d in sorted(os.listdir(sd)) if os.path.isdir(sd) else []:
        mp = os.path.join(sd, d, "meta.json")
        if os.path.exists(mp) and json.load(open(mp)).get("property") == prop and json.load(open(mp)).get("expect_rc", 1) == 1:
            cands.append((d, os.path.join(sd, d, "patch.diff")))
    ux = os.path.join(VERIF, "selftest", "unfix.json")
    if os.path.exists(ux):
        for e in json.load(open(ux)):
            if prop in e["properties"]:
                cands.append((e["id"], os.path.join(VERIF, "selftest", e["patch"])))
    for name, patch in cands:
        tmp = tempfile.mkdtemp(prefix="vx_selftest_")
        try:
            shutil.copytree(os.path.join(repo, "src"), os.path.join(tmp, "src"))
            for extra in ("Cargo.toml", "Cargo.lock"):
                if os.path.exists(os.path.join(repo, extra)):
                    shutil.copy(os.path.join(repo, extra), os.path.join(tmp, extra))
            r = sh(["patch", "-p1", "-s", "--no-backup-if-mismatch", "-i", patch], cwd=tmp)
            if r.returncode != 0:
                rows.append(dict(change=name, applied=False, detected=None))
                continue
            ss = Session(tmp, "quick", use_cache=True, canary=False)
            try:
                ss.prepare()
                try:
                    ss.verify()
                except Rejected as r:
                    raise Undecided("rejected: " + r.msgs)
                f = [x for x in failed_for(ss, prop) if not x.get("hint") and not open_closure_fn(ss, x)]   # no verdict (see decide)
                und = None
                if not f:
                    import kani_engine
                    if kani_engine.HARNESSES.get(prop) and os.path.exists(os.path.join(tmp, "Cargo.toml")):
                        kr = kani_engine.run_for(prop, tmp, "quick")
                        f = [dict(label="kani:" + k["harness"]) for k in kr.get("failed", [])]
                if not f:
                    try:
                        decide(prop, ss, "quick")       # would this tree be reported OK?  (raises Undecided otherwise)
                    except Undecided as e2:
                        und = str(e2)[:200]
                rows.append(dict(change=name, applied=True, detected=bool(f), failed=[x["label"] or "implicit" for x in f][:3], undecided=und))
            except Undecided as e:
                rows.append(dict(change=name, applied=True, detected=False, undecided=str(e)[:200]))
        finally:
            shutil.rmtree(tmp, ignore_errors=True)
    return rows


def esc_bytes(bs):
    out = ""
    for b in bs:
        if b == 10: out += "\\n"
        elif b == 13: out += "\\r"
        elif b == 92: out += "\\\\"
        elif 32 <= b < 127: out += chr(b)
        else: out += "\\x%02x" % b
    return out


def esc_out(bs):
    """what the replay runner prints for a byte string: std::ascii::escape_default per byte, then `{:?}` of that String"""
    out = ""
    for b in bs:
        if b == 9: out += "\\t"
        elif b == 10: out += "\\n"
        elif b == 13: out += "\\r"
        elif b == 34: out += "\\\""
        elif b == 39: out += "\\'"
        elif b == 92: out += "\\\\"
        elif 32 <= b < 127: out += chr(b)
        else: out += "\\x%02x" % b
    return out.replace("\\", "\\\\").replace('"', '\\"')


def replay_cex(cex, repo):
    """run the verifier's counterexample against the real crate (replay runner), return what was observed"""
    if cex and str(cex.get("function", "")).endswith("::grow_to"):
        kind = {"StdPolicy::grow_to": "std", "DoubleUntil::grow_to": "du"}.get(cex["function"], "dul")
        args = ["policy", kind, str(cex["current_size"])]
        if kind != "std":
            args.append(str(cex["double_until"]))
        if kind == "dul":
            args.append(str(cex["limit"]))
        r = sh([os.path.join(VERIF, "replay", "run.sh"), "--repo", repo] + args)
        obs = [l for l in r.stdout.split("\n") if l.startswith("grow_to(")]
        rep = False
        if obs:
            m = re.match(r"grow_to\(\d+\) -> (.*?)\s+documented: (.*)$", obs[0])
            rep = bool(m) and m.group(1).strip() != m.group(2).strip()
        return dict(arguments=cex, observed=obs[:1], reproduced=rep)
    def trim(bs):
        return bs[:-1] if bs and bs[-1] == 13 else bs
    if cex and cex.get("function") == "fastq accessors":
        f, o = cex["file"], cex["offsets"]
        want = [trim(f[1:o["seq"] - 1]), trim(f[o["seq"]:o["sep"] - 1]), trim(f[o["qual"]:o["end"]])]
        inp = esc_bytes(f)
        r = sh([os.path.join(VERIF, "replay", "run.sh"), "--repo", repo, "fastq", "64", inp, "next"])
        obs = [l for l in r.stdout.split("\n") if l.startswith("next ->")]
        exp = 'next -> rec head="%s" seq="%s" qual="%s"' % tuple(esc_out(w) for w in want)
        pan = [l.strip() for l in (r.stdout + (r.stderr or "")).split("\n") if "panicked at" in l]
        if not obs and pan:
            return dict(input=inp, expected=exp, observed=["the real crate " + pan[0][:200]], reproduced=True)
        return dict(input=inp, expected=exp, observed=obs[:1], reproduced=bool(obs) and obs[0].strip() != exp)
    if cex and cex.get("function") == "fasta owned_seq":
        f, o = cex["file"], cex["offsets"]
        head = trim(f[1:o["a"]])
        full = trim(f[o["a"] + 1:o["b"]]) + trim(f[o["b"] + 1:o["c"]])
        inp = esc_bytes(f)
        r = sh([os.path.join(VERIF, "replay", "run.sh"), "--repo", repo, "fasta", "64", inp, "next"])
        obs = [l for l in r.stdout.split("\n") if l.startswith("next ->")]
        w1 = 'head="%s"' % esc_out(head)
        w2 = 'full="%s"' % esc_out(full)
        pan = [l.strip() for l in (r.stdout + (r.stderr or "")).split("\n") if "panicked at" in l]
        if not obs and pan:
            return dict(input=inp, expected=[w1, w2], observed=["the real crate " + pan[0][:200]], reproduced=True)
        return dict(input=inp, expected=[w1, w2], observed=obs[:1], reproduced=bool(obs) and not (w1 in obs[0] and w2 in obs[0]))
    if not cex or cex.get("function") != "trim_cr":
        return None
    line = cex["line"]
    if 10 in line or (line and line[0] == 62):
        return dict(note="counterexample contains LF or starts with '>': cannot be embedded as one FASTA sequence line", line=line)
    inp = ">x\\n" + esc_bytes(line) + "\\n"
    exp = line[:-1] if line and line[-1] == 13 else line
    r = sh([os.path.join(VERIF, "replay", "run.sh"), "--repo", repo, "fasta", "64", inp, "next"])
    obs = [l for l in r.stdout.split("\n") if l.startswith("next ->")]
    want = 'lines=["%s"]' % esc_bytes(exp).replace("\\", "\\\\")
    return dict(input=inp, expected_sequence_lines=[esc_bytes(exp)], observed=obs[:2],
                reproduced=bool(obs) and want not in obs[0])


def replay_file(prop, sess, new):
    os.makedirs(REPLAYS, exist_ok=True)
    h = hashlib.sha256(json.dumps([[f["fn"], f["label"], f["message"], f["repo"]] for f in new], sort_keys=True).encode()).hexdigest()[:10]
    path = os.path.join(REPLAYS, "%s-%s.json" % (prop, h))
    cexs = [f.get("counterexample") for f in new if f.get("counterexample")]
    json.dump(dict(property=prop, kind="failed-obligations", counterexample=cexs or None,
                   replayed_on_real_code=[replay_cex(c, sess.repo) for c in cexs] or None,
                   note="Verus reports no counterexample; Kani counterexamples (if any) are replayed against the real crate; the failed obligations below passed on the unchanged tree",
                   tree=sess.key, checker_cmd=sess.main["cmd"],
                   failed_obligations=[dict(function=f["fn"], label=f["label"], message=f["message"], repo_location=f["repo"],
                                            clause=f["clause"], verifier_output=f["rendered"]) for f in new]),
              open(path, "w"), indent=1)
    return path


def main():
    ap = argparse.ArgumentParser()
    ap.add_argument("prop")
    ap.add_argument("arg", nargs="?")
    ap.add_argument("--tier", default=os.environ.get("VERIF_TIER", "quick"))
    ap.add_argument("--repo", default="/repo")
    ap.add_argument("--no-cache", action="store_true")
    a = ap.parse_args()
    tier = a.tier if a.tier in ("quick", "thorough") else "quick"
    if a.prop == "replay":
        return replay(a.arg, a.repo)
    props = [p for p in ALL_PROPS if p in claimed_props()] if a.prop == "all" else [a.prop]
    t0 = time.time()
    sess = Session(a.repo, tier, use_cache=not a.no_cache)
    rc = 0
    try:
        sess.prepare()
        try:
            sess.verify()
        except Rejected as r:
            # rule R20 wrote `x.map(|..| ..)` / and_then / map_or as a match on an Option; where that does not type-check the receiver
            # may be a Result: one more attempt with the Result forms in the rejected functions that have such a rewrite
            r20 = {k for k in r.fns if k in sess.fns and any(x.startswith("R20a") for x in sess.fns[k].rewrites)}
            done = False
            if r20:
                sess2 = Session(a.repo, tier, use_cache=not a.no_cache)
                sess2.prepare(r20_result=r20)
                try:
                    sess2.verify()
                    sess, done = sess2, True
                except Rejected:
                    pass
            if not done:
                why = {k: "rejected by the verifier inside this function: " + r.msgs[:200] for k in r.fns}
                sess = Session(a.repo, tier, use_cache=not a.no_cache)
                sess.prepare(force_external=why)
                try:
                    sess.verify()
                except Rejected as r2:
                    raise Undecided("verifier rejected the generated file (also with %s emitted unverified): %s" % (sorted(why), r2.msgs))
    except Undecided as e:
        for p in props:
            print("UNDECIDED property=%s reason=%s" % (p, e))
            write_evidence(sess, p, tier, [], [], undecided=str(e), wall=time.time() - t0)
        return 2
    claimed = claimed_props()
    stub_check = None
    if tier == "thorough":
        # assumption T1 is exercised (not proved): random operation sequences on the real buffer_redux::BufReader against the stub's model
        seed = str(int(os.environ.get("VERIF_SEED", "0") or 0) + 12345)
        r = sh([os.path.join(VERIF, "replay", "run.sh"), "--repo", a.repo, "stubcheck", seed, "3000", "60"])
        line = next((l for l in r.stdout.split("\n") if l.startswith("stubcheck ok")), None)
        stub_check = dict(assumption="T1 buffer_redux::BufReader stub; T4 split / splitn / chunks stubs", kind="differential test, not a proof", seed=int(seed),
                          result=line or ("FAILED: " + (r.stdout + r.stderr)[-600:]))
        if line is None:
            for p in props:
                print("UNDECIDED property=%s reason=assumption T1 (BufReader stub) contradicted by the real buffer_redux: %s" % (p, stub_check["result"][-300:]))
                write_evidence(sess, p, tier, [], [], undecided="T1 stub check failed: " + stub_check["result"], wall=time.time() - t0)
            return 2
    sess.stub_check = stub_check
    for p in props:
        if a.prop == "all" and p not in claimed:
            continue
        try:
            new, reported, failed = decide(p, sess, tier)
        except Undecided as e:
            # the deductive side has no verdict; a leaf function that also has a Kani harness (trim_cr, the policies) can still be
            # refuted by it - with a concrete input that is replayed on the real crate
            import kani_engine
            kani = None
            if (tier == "thorough" or p in KANI_QUICK) and kani_engine.HARNESSES.get(p):
                kani = kani_engine.run_for(p, a.repo, tier)
            if not (kani and kani.get("failed")):
                print("UNDECIDED property=%s reason=%s" % (p, e))
                write_evidence(sess, p, tier, [], [], undecided=str(e), wall=time.time() - t0, kani=kani)
                rc = max(rc, 2)
                continue
            new, reported, failed = [], [], []
        else:
            kani = None
        if kani is None and (tier == "thorough" or p in KANI_QUICK):
            import kani_engine
            kani = kani_engine.run_for(p, a.repo, tier)
        if kani is not None:
            for kf in kani.get("failed", []):
                new.append(dict(fn=kf["function"], label="kani:" + kf["harness"], tags=[p], message=kf["message"], repo=None,
                                clause=None, rendered=kf.get("output", "")[-2500:], gen_line=0, counterexample=kf.get("counterexample")))
            if kani.get("undecided"):
                print("UNDECIDED property=%s reason=kani: %s" % (p, kani["undecided"]))
                write_evidence(sess, p, tier, [], [], undecided="kani: " + kani["undecided"], wall=time.time() - t0, kani=kani)
                rc = max(rc, 2)
                continue
        for r in reported:
            print(r)
        st = None
        if tier == "thorough" and not new:
            st = selftest_for(p, a.repo)
            # a kept change that is neither reported nor undecided would be reported OK: that is a loss of discriminating power
            missed = [r for r in st if r["applied"] and not r["detected"] and not r.get("undecided")]
            if missed:
                # the check has lost discriminating power it is recorded to have: its verdict is not to be relied on
                print("UNDECIDED property=%s reason=self-test: kept property-breaking change(s) %s no longer fail an obligation of %s" %
                      (p, [m["change"] for m in missed], p))
                write_evidence(sess, p, tier, [], [], undecided="self-test missed %s" % [m["change"] for m in missed],
                               wall=time.time() - t0, kani=kani, selftest=st)
                rc = max(rc, 2)
                continue
        write_evidence(sess, p, tier, failed + [f for f in new if f not in failed], reported, wall=time.time() - t0, kani=kani, selftest=st)
        if new:
            path = replay_file(p, sess, new)
            has_cex = any(f.get("counterexample") for f in new)
            print("VIOLATION property=%s replay=%s%s" % (p, path, "" if has_cex else " no-failing-input-found"))
            for f in new[:8]:
                print("  failed obligation: %s [%s] %s at %s%s" % (f["fn"], f["label"] or "implicit", f["message"], f["repo"],
                                                                    " (proof hint)" if f.get("hint") else ""))
            rc = max(rc, 1) if rc != 2 else 2
            rc = 1
        else:
            labelled, fns, implicit = obligations_for(sess, p)
            stx = ""
            if st is not None:
                stx = " self_test=%d/%d changes reported, %d undecided, none accepted (%d not applicable)" % (
                    sum(1 for r in st if r["applied"] and r["detected"]), sum(1 for r in st if r["applied"]),
                    sum(1 for r in st if r["applied"] and not r["detected"] and r.get("undecided")), sum(1 for r in st if not r["applied"]))
            print("OK property=%s functions=%d labelled_obligations=%d implicit_sites=%d canaries=%d/%d verus_wall=%.1fs%s%s" % (
                p, len(fns), len(labelled), sum(implicit.values()), sess.canaries_failed, sess.n_canaries, sess.main["wall"],
                " (cached)" if sess.main.get("cache_hit") else "", stx))
    return rc


KANI_QUICK = {"C01", "C02", "C04", "C09", "C12", "C13"}


def claimed_props():
    try:
        m = json.load(open(os.path.join(VERIF, "MANIFEST.json")))
        return [c["property_id"] for c in m["checks"]]
    except Exception:
        return ALL_PROPS


def replay(path, repo):
    d = json.load(open(path))
    prop = d["property"]
    sess = Session(repo, "quick", use_cache=True)
    try:
        sess.prepare()
        try:
            sess.verify()
        except Rejected as r:
            raise Undecided("rejected: " + r.msgs)
    except Undecided as e:
        print("UNDECIDED property=%s reason=%s" % (prop, e))
        return 2
    want = {(o["function"], o["label"]) for o in d["failed_obligations"]}
    still = [f for f in sess.failed if (f["fn"], f["label"]) in want]
    for o in d["failed_obligations"]:
        st = "STILL FAILS" if any((f["fn"], f["label"]) == (o["function"], o["label"]) for f in still) else "now discharged"
        print("%s: %s [%s] %s (%s)" % (st, o["function"], o["label"], o["message"], o["repo_location"]))
    if still:
        print("VIOLATION property=%s replay=%s no-failing-input-found" % (prop, path))
        return 1
    return 0


if __name__ == "__main__":
    try:
        sys.exit(main())
    except SystemExit:
        raise
    except BaseException as e:   # a crash of the machinery is never a verdict on the code
        import traceback
        traceback.print_exc()
        print("UNDECIDED reason=internal error of the checker: %r" % (e,))
        sys.exit(2)
