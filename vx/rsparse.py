#!/usr/bin/env python3
"""Item-level Rust source parser: tokenizer (comment / string / char / lifetime aware)
and item splitter (fn, struct, enum, impl, trait, macro_rules, ...).

It never rewrites anything: every item is a (start, end) byte range of the original
text plus the token list, so the text handed to the splicer is the text in /repo.
"""
import re
from dataclasses import dataclass, field
from typing import List, Optional

IDENT_RE = re.compile(r"[A-Za-z_][A-Za-z0-9_]*")
NUM_RE = re.compile(r"[0-9][A-Za-z0-9_]*(\.[0-9][A-Za-z0-9_]*)?")
PUNCT3 = ("<<=", ">>=", "...", "..=")
PUNCT2 = ("::", "->", "=>", "==", "!=", "<=", ">=", "&&", "||", "+=", "-=", "*=", "/=", "%=",
          "^=", "&=", "|=", "<<", ">>", "..")


@dataclass
class Tok:
    kind: str   # ident, num, str, char, lifetime, punct, comment, doc
    text: str
    start: int
    end: int


class ParseError(Exception):
    pass


def tokenize(src: str, keep_comments: bool = False) -> List[Tok]:
    toks: List[Tok] = []
    i, n = 0, len(src)
    while i < n:
        c = src[i]
        if c.isspace():
            i += 1
            continue
        # comments
        if src.startswith("//", i):
            j = src.find("\n", i)
            if j < 0:
                j = n
            text = src[i:j]
            is_doc = (text.startswith("///") and not text.startswith("////")) or text.startswith("//!")
            if keep_comments or is_doc:
                toks.append(Tok("doc" if is_doc else "comment", text, i, j))
            i = j
            continue
        if src.startswith("/*", i):
            depth, j = 1, i + 2
            while j < n and depth:
                if src.startswith("/*", j):
                    depth += 1
                    j += 2
                elif src.startswith("*/", j):
                    depth -= 1
                    j += 2
                else:
                    j += 1
            if keep_comments:
                toks.append(Tok("comment", src[i:j], i, j))
            i = j
            continue
        # raw strings / byte strings
        m = re.match(r"(b|c)?r(#*)\"", src[i:i + 40])
        if m:
            hashes = m.group(2)
            close = '"' + hashes
            j = src.find(close, i + m.end())
            if j < 0:
                raise ParseError("unterminated raw string at %d" % i)
            j += len(close)
            toks.append(Tok("str", src[i:j], i, j))
            i = j
            continue
        if c == '"' or (c in "bc" and i + 1 < n and src[i + 1] == '"'):
            j = i + (1 if c == '"' else 2)
            while j < n and src[j] != '"':
                j += 2 if src[j] == "\\" else 1
            j += 1
            toks.append(Tok("str", src[i:j], i, j))
            i = j
            continue
        # char / byte char / lifetime
        if c == "'" or (c == "b" and i + 1 < n and src[i + 1] == "'"):
            k = i + (1 if c == "'" else 2)
            if c == "'" :
                # lifetime: 'ident not followed by '
                m2 = IDENT_RE.match(src, k)
                if m2 and not (m2.end() < n and src[m2.end()] == "'"):
                    toks.append(Tok("lifetime", src[i:m2.end()], i, m2.end()))
                    i = m2.end()
                    continue
            j = k
            if src[j] == "\\":
                j += 2
                while j < n and src[j] != "'":
                    j += 1
            else:
                j += 1
                while j < n and src[j] != "'":   # multi-byte char
                    j += 1
            j += 1
            toks.append(Tok("char", src[i:j], i, j))
            i = j
            continue
        m = IDENT_RE.match(src, i)
        if m:
            toks.append(Tok("ident", m.group(0), i, m.end()))
            i = m.end()
            continue
        m = NUM_RE.match(src, i)
        if m:
            # avoid swallowing `1..2` as a float
            text = m.group(0)
            if "." in text and src.startswith("..", i + text.index(".")):
                text = text[:text.index(".")]
            toks.append(Tok("num", text, i, i + len(text)))
            i += len(text)
            continue
        for plist, ln in ((PUNCT3, 3), (PUNCT2, 2)):
            if src[i:i + ln] in plist:
                toks.append(Tok("punct", src[i:i + ln], i, i + ln))
                i += ln
                break
        else:
            toks.append(Tok("punct", c, i, i + 1))
            i += 1
    return toks


OPEN = {"(": ")", "[": "]", "{": "}"}
CLOSE = {")", "]", "}"}


def match_close(toks: List[Tok], i: int) -> int:
    """index of the token closing the bracket opened at toks[i]"""
    depth = 0
    for j in range(i, len(toks)):
        t = toks[j]
        if t.kind == "punct":
            if t.text in OPEN:
                depth += 1
            elif t.text in CLOSE:
                depth -= 1
                if depth == 0:
                    return j
    raise ParseError("unbalanced bracket at token %d (%r)" % (i, toks[i].text))


@dataclass
class Item:
    kind: str                 # fn, struct, enum, impl, trait, macro_rules, use, const, type, mod, other
    name: str
    attrs: List[str]          # attribute / doc texts in front of the item
    start: int                # byte offset of first non-attribute token
    end: int                  # byte offset just past the item
    attr_start: int
    head_end: int = -1        # for braced items: byte offset of the opening '{'
    body_start: int = -1      # == head_end
    body_end: int = -1        # offset just past the closing '}'
    children: List["Item"] = field(default_factory=list)
    self_key: str = ""        # for impl: "Reader" or "Record for RefRecord"
    has_body: bool = True

    def text(self, src):
        return src[self.start:self.end]

    def header(self, src):
        return src[self.start:self.head_end]

    def body(self, src):
        return src[self.body_start:self.body_end]


ITEM_KW = {"fn", "struct", "enum", "union", "impl", "trait", "mod", "use", "const", "static", "type",
           "macro_rules", "extern"}
QUALIFIERS = {"pub", "unsafe", "async", "default", "const", "extern"}


def _strip_generics(toks: List[Tok]) -> List[Tok]:
    out, depth = [], 0
    for t in toks:
        if t.kind == "punct" and t.text == "<":
            depth += 1
            continue
        if t.kind == "punct" and t.text == ">":
            depth -= 1
            continue
        if t.kind == "punct" and t.text == ">>":
            depth -= 2
            continue
        if depth == 0:
            out.append(t)
    return out


def parse_items(src: str, toks: List[Tok], lo: int, hi: int) -> List[Item]:
    """parse toks[lo:hi] as a sequence of items"""
    items: List[Item] = []
    i = lo
    while i < hi:
        attrs: List[str] = []
        attr_start = toks[i].start
        # attributes and doc comments
        while i < hi:
            t = toks[i]
            if t.kind == "doc":
                attrs.append(t.text)
                i += 1
            elif t.kind == "punct" and t.text == "#":
                j = i + 1
                if toks[j].text == "!":
                    j += 1
                assert toks[j].text == "[", "attribute syntax"
                k = match_close(toks, j)
                attrs.append(src[t.start:toks[k].end])
                i = k + 1
            else:
                break
        if i >= hi:
            break
        start_tok = i
        # find the item keyword
        j = i
        kw = None
        while j < hi:
            t = toks[j]
            if t.kind == "ident" and t.text in ITEM_KW:
                # `pub(crate)`, `const fn`, `extern "C" fn`, `extern crate`
                if t.text in ("const", "extern", "unsafe") and j + 1 < hi:
                    nxt = toks[j + 1]
                    if nxt.kind == "ident" and nxt.text in ("fn", "unsafe", "extern", "impl", "trait"):
                        j += 1
                        continue
                    if t.text == "extern" and nxt.kind == "str":
                        j += 2
                        continue
                kw = t.text
                break
            if t.kind == "ident" and t.text in QUALIFIERS:
                j += 1
                continue
            if t.kind == "punct" and t.text == "(":      # pub(crate)
                j = match_close(toks, j) + 1
                continue
            break
        if kw is None:
            # e.g. a macro invocation item  `foo! { .. }` / `foo!(..);`
            kw = "other"
        # find end: first ';' or '{' at depth 0
        depth = 0
        k = j
        end_tok = None
        brace_tok = None
        while k < hi:
            t = toks[k]
            if t.kind == "punct":
                if t.text in ("(", "["):
                    depth += 1
                elif t.text in (")", "]"):
                    depth -= 1
                elif t.text == ";" and depth == 0:
                    end_tok = k
                    break
                elif t.text == "{" and depth == 0:
                    brace_tok = k
                    end_tok = match_close(toks, k)
                    # `struct X {..}` / fn / impl end here; `const X: T = Foo {..};` continues to ';'
                    if kw in ("const", "static", "use", "type"):
                        k = end_tok + 1
                        brace_tok = None
                        continue
                    break
            k += 1
        if end_tok is None:
            raise ParseError("item without end near byte %d" % toks[start_tok].start)
        name = ""
        if kw == "macro_rules":
            name = toks[j + 2].text if toks[j + 1].text == "!" else ""
        elif kw in ("fn", "struct", "enum", "union", "trait", "mod", "const", "static", "type"):
            name = toks[j + 1].text
        it = Item(kind=kw, name=name, attrs=attrs, start=toks[start_tok].start, end=toks[end_tok].end,
                  attr_start=attr_start)
        if brace_tok is not None:
            it.head_end = toks[brace_tok].start
            it.body_start = toks[brace_tok].start
            it.body_end = toks[end_tok].end
        else:
            it.has_body = False
        if kw == "impl" and brace_tok is not None:
            hdr = toks[j + 1:brace_tok]
            # cut at `where`
            for q, t in enumerate(hdr):
                if t.kind == "ident" and t.text == "where":
                    hdr = hdr[:q]
                    break
            # leading generics of the impl itself
            if hdr and hdr[0].text == "<":
                d = 0
                for q, t in enumerate(hdr):
                    if t.text == "<":
                        d += 1
                    elif t.text == ">":
                        d -= 1
                    elif t.text == ">>":
                        d -= 2
                    if d == 0:
                        hdr = hdr[q + 1:]
                        break
            flat = _strip_generics(hdr)
            words = [t.text for t in flat if t.kind in ("ident",) or t.text in ("::", "&")]
            # e.g. ['iter','::','IntoIterator','for','&','RecordSet'] -> "IntoIterator for &RecordSet"
            out, cur = [], []
            for w in words:
                if w == "for":
                    out.append(cur)
                    cur = []
                else:
                    cur.append(w)
            out.append(cur)

            def last_seg(ws):
                s = ""
                amp = "&" if "&" in ws else ""
                ids = [w for w in ws if w not in ("::", "&", "mut", "dyn")]
                s = ids[-1] if ids else ""
                return amp + s
            it.self_key = " for ".join(last_seg(ws) for ws in out)
            it.name = it.self_key
            it.children = parse_items(src, toks, brace_tok + 1, end_tok)
        elif kw == "trait" and brace_tok is not None:
            it.self_key = name
            it.children = parse_items(src, toks, brace_tok + 1, end_tok)
        elif kw == "mod" and brace_tok is not None:
            it.children = parse_items(src, toks, brace_tok + 1, end_tok)
        items.append(it)
        i = end_tok + 1
    return items


@dataclass
class SourceFile:
    path: str
    module: str
    src: str
    toks: List[Tok]
    items: List[Item]

    def line_of(self, off: int) -> int:
        return self.src.count("\n", 0, off) + 1


def parse_file(path: str, module: str) -> SourceFile:
    src = open(path, encoding="utf-8").read()
    toks = tokenize(src)
    items = parse_items(src, toks, 0, len(toks))
    return SourceFile(path, module, src, toks, items)


def find_item(sf: SourceFile, path: str):
    """path: 'Name' for top-level items, 'Self::name' / 'Trait for Self::name' for members.
    Returns (item, parent or None). Raises KeyError when absent or ambiguous."""
    parts = path.rsplit("::", 1)
    found = []
    if len(parts) == 1:
        for it in sf.items:
            if it.name == path and it.kind not in ("impl", "use"):
                found.append((it, None))
    else:
        owner, name = parts
        for it in sf.items:
            if it.kind in ("impl", "trait") and it.self_key == owner:
                for ch in it.children:
                    if ch.name == name and ch.kind in ("fn", "const", "type"):
                        found.append((ch, it))
    if len(found) != 1:
        raise KeyError("%s::%s: %d matches" % (sf.module, path, len(found)))
    return found[0]


if __name__ == "__main__":
    import sys
    sf = parse_file(sys.argv[1], sys.argv[2] if len(sys.argv) > 2 else "m")
    for it in sf.items:
        print(it.kind, repr(it.name), sf.line_of(it.start), sf.line_of(it.end))
        for ch in it.children:
            print("    ", ch.kind, repr(ch.name), sf.line_of(ch.start), sf.line_of(ch.end), "body" if ch.has_body else "decl")
