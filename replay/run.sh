#!/bin/bash
# builds the replay runner against a given seq_io tree (default /repo) in a scratch dir and runs one scenario
# usage: run.sh [--repo DIR] <fasta|fastq> <cap> <input> [ops...]
REPO=/repo
if [ "$1" = "--repo" ]; then REPO=$2; shift 2; fi
HERE="$(cd "$(dirname "$0")" && pwd)"
W=$(mktemp -d /tmp/seqio_replay.XXXXXX)
trap 'rm -rf "$W"' EXIT
cp -r "$HERE/src" "$HERE/Cargo.toml" "$W/"
cp "$REPO/Cargo.lock" "$W/" 2>/dev/null
sed -i "s#path = \"/repo\"#path = \"$REPO\"#" "$W/Cargo.toml"
( cd "$W" && CARGO_NET_OFFLINE=true CARGO_TARGET_DIR="$HERE/target" cargo build --offline -q 2>&1 | tail -5 ) || exit 2
"$HERE/target/debug/seqio_replay" "$@"
