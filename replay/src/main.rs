//! Replay runner: executes one concrete scenario against the real seq_io crate and prints what happened.
//! It never decides a property; it confirms and displays a failure (DESIGN.md section 2).
//!
//! usage: seqio_replay <fasta|fastq> <capacity> <input-escaped> [ops...] [--chunk N] [--limit N]
//!   ops: next | set | exact:N | seek:K (seek to the position recorded after the K-th returned item) | pos | lines
//!   --limit N : DoubleUntilLimited(N, N) policy (refuses growth beyond N)
//!   --fail-at K / --interrupt-at K : the K-th read call of the source fails with ErrorKind::Other / Interrupted
use seq_io::policy::DoubleUntilLimited;
use std::io::{self, Read, Seek, SeekFrom};

struct Chunked { data: Vec<u8>, pos: usize, chunk: usize, calls: usize, fail_at: usize, interrupt_at: usize }
impl Read for Chunked {
    fn read(&mut self, buf: &mut [u8]) -> io::Result<usize> {
        self.calls += 1;
        if self.calls == self.fail_at { return Err(io::Error::new(io::ErrorKind::Other, "injected")); }
        if self.calls == self.interrupt_at { return Err(io::Error::new(io::ErrorKind::Interrupted, "interrupted")); }
        let n = buf.len().min(self.chunk).min(self.data.len().saturating_sub(self.pos));
        buf[..n].copy_from_slice(&self.data[self.pos..self.pos + n]);
        self.pos += n;
        Ok(n)
    }
}
impl Seek for Chunked {
    fn seek(&mut self, p: SeekFrom) -> io::Result<u64> {
        if let SeekFrom::Start(x) = p { self.pos = x as usize; Ok(x) } else { Err(io::Error::new(io::ErrorKind::Other, "unsupported")) }
    }
}

fn unescape(s: &str) -> Vec<u8> {
    let b = s.as_bytes();
    let mut out = vec![];
    let mut i = 0;
    while i < b.len() {
        if b[i] == b'\\' && i + 1 < b.len() {
            match b[i + 1] {
                b'n' => { out.push(b'\n'); i += 2; }
                b'r' => { out.push(b'\r'); i += 2; }
                b't' => { out.push(b'\t'); i += 2; }
                b'\\' => { out.push(b'\\'); i += 2; }
                b'x' => { out.push(u8::from_str_radix(&s[i + 2..i + 4], 16).unwrap()); i += 4; }
                _ => { out.push(b[i]); i += 1; }
            }
        } else { out.push(b[i]); i += 1; }
    }
    out
}
fn esc(b: &[u8]) -> String { b.iter().map(|c| std::ascii::escape_default(*c).to_string()).collect() }

fn main() {
    let a: Vec<String> = std::env::args().collect();
    if a[1] == "stubcheck" {
        // seqio_replay stubcheck <seed> <sequences> <ops per sequence>
        // Differential check of trusted stub T1 (contracts/00_prelude.rs, buffer_redux::BufReader): random operation sequences on the
        // real BufReader over an endless source that always fills the slice it is given; after every operation the observable part
        // of the stub's postcondition is compared with the real object (buffer contents, capacity bounds, and - through the number of
        // bytes the next read delivers - the amount of usable space, i.e. the stub's model of `head`).  A test, not a proof.
        let mut seed: u64 = a[2].parse().unwrap();
        let nseq: usize = a[3].parse().unwrap();
        let nops: usize = a[4].parse().unwrap();
        let mut rnd = move || { seed ^= seed << 13; seed ^= seed >> 7; seed ^= seed << 17; seed };
        struct Endless(u64);
        impl Read for Endless {
            fn read(&mut self, buf: &mut [u8]) -> io::Result<usize> {
                for b in buf.iter_mut() { *b = (self.0 % 251) as u8; self.0 += 1; }
                Ok(buf.len())
            }
        }
        let mut checked = 0usize;
        for _ in 0..nseq {
            let cap0 = 1 + (rnd() % 40) as usize;
            let mut r = buffer_redux::BufReader::with_capacity(cap0, Endless(0));
            assert!(r.capacity() >= cap0 && r.buffer().is_empty(), "with_capacity");
            // model: (file offset of buffer[0], buffer contents, head)
            let (mut base, mut head): (u64, usize) = (0, 0);
            let mut model: Vec<u8> = vec![];
            for _ in 0..nops {
                let cap = r.capacity();
                match rnd() % 4 {
                    0 => { // read_into_buf: delivers exactly the usable space the stub predicts
                        let usable = cap - head - model.len();
                        let n = r.read_into_buf().unwrap();
                        assert!(n == usable, "read_into_buf read {} bytes, stub predicts usable {} (cap {} head {} len {})", n, usable, cap, head, model.len());
                        for i in 0..n { model.push(((base + model.len() as u64) % 251) as u8); let _ = i; }
                        assert!(r.capacity() == cap, "read_into_buf changed the capacity");
                    }
                    1 => { // consume
                        let amt = (rnd() % 12) as usize;
                        let k = amt.min(model.len());
                        use std::io::BufRead;
                        r.consume(amt);
                        head = if k == model.len() { 0 } else { head + k };
                        model.drain(..k);
                        base += k as u64;
                        assert!(r.capacity() == cap, "consume changed the capacity");
                    }
                    2 => { // make_room
                        r.make_room();
                        head = 0;
                        assert!(r.capacity() == cap, "make_room changed the capacity");
                    }
                    _ => { // reserve
                        let add = (rnd() % 24) as usize;
                        let usable = cap - head - model.len();
                        r.reserve(add);
                        if model.is_empty() { head = 0; }
                        assert!(r.capacity() >= cap, "reserve shrank the buffer");
                        if usable >= add { assert!(r.capacity() == cap, "reserve grew although {} usable >= {} requested", usable, add); }
                        assert!(r.capacity() - head - model.len() >= add, "reserve({}) left less usable space than requested", add);
                    }
                }
                assert!(r.buffer() == &model[..], "buffer contents differ from the stub's model");
                checked += 1;
            }
        }
        // T4: the assumed specifications of <[u8]>::split / splitn / chunks (contracts/15_stdspecs.rs) and split_last (contracts/30_lib.rs) on random byte strings:
        // one step yields the piece before the first separator and continues after it; splitn's last piece is the whole rest;
        // chunks yields pieces of n bytes, the last one 1..=n bytes
        let mut t4 = 0usize;
        for _ in 0..nseq {
            let len = (rnd() % 12) as usize;
            let v: Vec<u8> = (0..len).map(|_| b"ab \n"[(rnd() % 4) as usize]).collect();
            let c = b" \n"[(rnd() % 2) as usize];
            let mut rest: Option<&[u8]> = Some(&v[..]);
            for piece in v.split(|b| *b == c) {
                let r0 = rest.expect("split yielded a piece after it was done");
                let k = r0.iter().position(|b| *b == c).unwrap_or(r0.len());
                assert!(piece == &r0[..k], "split piece");
                rest = if k < r0.len() { Some(&r0[k + 1..]) } else { None };
                t4 += 1;
            }
            assert!(rest.is_none(), "split stopped early");
            let n = 1 + (rnd() % 3) as usize;
            let mut it = v.splitn(n, |b| *b == c);
            let mut r0: &[u8] = &v[..];
            let mut done = false;
            for i in 0..n + 1 {
                let got = it.next();
                if i >= n || done { assert!(got.is_none(), "splitn yields beyond its count / after the end"); continue; }
                if i + 1 == n { assert!(got == Some(r0), "splitn last piece is the rest"); done = true; continue; }
                let k = r0.iter().position(|b| *b == c).unwrap_or(r0.len());
                assert!(got == Some(&r0[..k]), "splitn piece");
                if k < r0.len() { r0 = &r0[k + 1..]; } else { done = true; }
                t4 += 1;
            }
            let w = 1 + (rnd() % 5) as usize;
            let mut off = 0;
            for ch in v.chunks(w) {
                let e = (off + w).min(v.len());
                assert!(ch == &v[off..e] && !ch.is_empty(), "chunks piece");
                off = e;
                t4 += 1;
            }
            assert!(off == v.len(), "chunks covers the slice");
            // split_last (contracts/30_lib.rs): None iff empty, else (last element, everything before it)
            match v.split_last() {
                None => assert!(v.is_empty(), "split_last None on a non-empty slice"),
                Some((l, r)) => assert!(!v.is_empty() && *l == v[v.len() - 1] && r == &v[..v.len() - 1], "split_last"),
            }
            t4 += 1;
            // str::splitn(n, ' ') (wrapper vx_str_splitn, contracts/15_stdspecs.rs): the pieces of a str split at an ASCII char are the
            // pieces of its bytes split at that byte; strings with multi-byte characters included
            let alphabet = ["a", " ", "\u{e9}", "\u{4e2d}", "b", " ", "\u{1f600}", "\u{a0}"];
            let slen = (rnd() % 8) as usize;
            let st: String = (0..slen).map(|_| alphabet[(rnd() % 8) as usize]).collect();
            let n = 1 + (rnd() % 3) as usize;
            let got: Vec<&[u8]> = st.splitn(n, ' ').map(|x| x.as_bytes()).collect();
            let want: Vec<&[u8]> = st.as_bytes().splitn(n, |b| *b == b' ').collect();
            assert!(got == want, "str::splitn differs from the byte-level splitn");
            t4 += 1;
        }
        println!("stubcheck ok: {} BufReader operations on {} sequences agree with the T1 stub; {} split/splitn/chunks/split_last/str::splitn steps agree with the T4 stubs", checked, nseq, t4);
        return;
    }
    if a[1] == "policy" {
        // seqio_replay policy <std|du|dul> <current_size> [double_until] [limit]
        use seq_io::policy::{BufPolicy, DoubleUntil, StdPolicy};
        let cur: usize = a[3].parse().unwrap();
        let du: usize = a.get(4).map(|x| x.parse().unwrap()).unwrap_or(1 << 23);
        let limit: Option<usize> = a.get(5).map(|x| x.parse().unwrap());
        let r = std::panic::catch_unwind(|| match a[2].as_str() {
            "std" => StdPolicy.grow_to(cur),
            "du" => DoubleUntil(du).grow_to(cur),
            _ => DoubleUntilLimited::new(du, limit.unwrap()).grow_to(cur),
        });
        let want = if cur < du { cur.checked_mul(2) } else { cur.checked_add(du) };
        let want = match (want, limit) { (Some(w), Some(l)) if w > l => None, (w, _) => w };
        let got = match r { Ok(v) => format!("{:?}", v), Err(_) => "panicked".to_string() };
        println!("grow_to({}) -> {}   documented: {:?}", cur, got, want);
        return;
    }
    let fmt = a[1].as_str();
    let cap: usize = a[2].parse().unwrap();
    let data = unescape(&a[3]);
    let mut ops = vec![];
    let mut chunk = usize::MAX;
    let mut limit: Option<usize> = None;
    let mut fail_at = 0usize;
    let mut interrupt_at = 0usize;
    let mut i = 4;
    while i < a.len() {
        match a[i].as_str() {
            "--chunk" => { chunk = a[i + 1].parse().unwrap(); i += 2; }
            "--limit" => { limit = Some(a[i + 1].parse().unwrap()); i += 2; }
            "--fail-at" => { fail_at = a[i + 1].parse().unwrap(); i += 2; }
            "--interrupt-at" => { interrupt_at = a[i + 1].parse().unwrap(); i += 2; }
            o => { ops.push(o.to_string()); i += 1; }
        }
    }
    if ops.is_empty() { for _ in 0..64 { ops.push("next".into()); } }
    let src = Chunked { data, pos: 0, chunk, calls: 0, fail_at, interrupt_at };
    let lim = limit.unwrap_or(usize::MAX / 4);
    if fmt == "fastq" {
        use seq_io::fastq::{Reader, Record, RecordSet, Position};
        let mut r = Reader::with_capacity(src, cap).set_policy(DoubleUntilLimited::new(lim, lim));
        let mut rs = RecordSet::default();
        let mut positions: Vec<Position> = vec![];
        for op in ops {
            if op == "next" {
                match r.next() {
                    None => { println!("next -> None"); }
                    Some(Ok(rec)) => { println!("next -> rec head={:?} seq={:?} qual={:?}", esc(rec.head()), esc(rec.seq()), esc(rec.qual())); }
                    Some(Err(e)) => println!("next -> Err({:?})", e),
                }
                positions.push(r.position().clone());
                println!("  position line={} byte={}", r.position().line(), r.position().byte());
            } else if op == "set" || op.starts_with("exact:") {
                let res = if op == "set" { r.read_record_set(&mut rs) } else { r.read_record_set_exact(&mut rs, Some(op[6..].parse().unwrap())) };
                match res { None => println!("{} -> None (len {})", op, rs.len()), Some(Ok(())) => println!("{} -> Ok len={}", op, rs.len()), Some(Err(e)) => println!("{} -> Err({:?}) len={}", op, e, rs.len()) }
                for rec in &rs { println!("    rec head={:?} seq={:?} qual={:?}", esc(rec.head()), esc(rec.seq()), esc(rec.qual())); }
                positions.push(r.position().clone());
                println!("  position line={} byte={}", r.position().line(), r.position().byte());
            } else if op.starts_with("seek:") {
                let k: usize = op[5..].parse().unwrap();
                let p = positions[k].clone();
                println!("seek to line={} byte={} -> {:?}", p.line(), p.byte(), r.seek(&p).map_err(|e| format!("{:?}", e)));
            }
        }
    } else {
        use seq_io::fasta::{Reader, Record, RecordSet, Position};
        let mut r = Reader::with_capacity(src, cap).set_policy(DoubleUntilLimited::new(lim, lim));
        let mut rs = RecordSet::default();
        let mut positions: Vec<Option<Position>> = vec![];
        for op in ops {
            if op == "next" || op == "lines" {
                match r.next() {
                    None => { println!("next -> None"); }
                    Some(Ok(rec)) => {
                        let lines: Vec<String> = rec.seq_lines().map(esc).collect();
                        println!("next -> rec head={:?} lines={:?} raw_seq={:?} full={:?} n={}", esc(rec.head()), lines, esc(rec.seq()), esc(&rec.full_seq()), rec.num_seq_lines());
                        if op == "lines" {
                            let mut it = rec.seq_lines();
                            loop { let l = it.len(); let h = it.size_hint(); match it.next_back() { Some(x) => println!("    back len={} hint={:?} item={:?}", l, h, esc(x)), None => { println!("    back len={} hint={:?} end", l, h); break; } } }
                        }
                    }
                    Some(Err(e)) => println!("next -> Err({:?})", e),
                }
                positions.push(r.position().cloned());
                println!("  position {:?}", r.position().map(|p| (p.line(), p.byte())));
            } else if op == "set" || op.starts_with("exact:") {
                let res = if op == "set" { r.read_record_set(&mut rs) } else { r.read_record_set_exact(&mut rs, Some(op[6..].parse().unwrap())) };
                match res { None => println!("{} -> None (len {})", op, rs.len()), Some(Ok(())) => println!("{} -> Ok len={}", op, rs.len()), Some(Err(e)) => println!("{} -> Err({:?}) len={}", op, e, rs.len()) }
                for rec in &rs { let lines: Vec<String> = rec.seq_lines().map(esc).collect(); println!("    rec head={:?} lines={:?}", esc(rec.head()), lines); }
                positions.push(r.position().cloned());
                println!("  position {:?}", r.position().map(|p| (p.line(), p.byte())));
            } else if op.starts_with("seek:") {
                let k: usize = op[5..].parse().unwrap();
                if let Some(p) = positions[k].clone() {
                    println!("seek to line={} byte={} -> {:?}", p.line(), p.byte(), r.seek(&p).map_err(|e| format!("{:?}", e)));
                } else { println!("seek: no position recorded at {}", k); }
            }
        }
    }
}
