#!/bin/bash
# offline setup: nothing to build except warming the Verus import cache; python3 stdlib only
cd "$(dirname "$0")"
mkdir -p .cache evidence replays
command -v verus >/dev/null || { echo "verus not on PATH"; exit 1; }
python3 -c "import json; json.load(open('MANIFEST.json'))" || exit 1
exit 0
