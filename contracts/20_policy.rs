// =====================================================================================================
// /verif/contracts/20_policy.rs — src/policy.rs under contract (C09 policy arithmetic, T6)
// =====================================================================================================
pub mod policy {
    use vstd::prelude::*;
    verus! {

//@impl_open policy::BufPolicy::grow_to
    /// T6: what a policy must satisfy for the readers to terminate; each built-in policy defines when it does
    spec fn policy_ok(&self) -> bool;
    /// what this policy (in its current state) answers for a given size
    spec fn answer(&self, current_size: usize) -> Option<usize>;
//@sig policy::BufPolicy::grow_to ret=r tags=C09
//@spec
        requires
            old(self).policy_ok(),
            1 <= current_size <= isize::MAX,
        ensures
            [C09,C06|policy.trait.ok_preserved] final(self).policy_ok(),
            [C09,C06|policy.trait.strictly_larger] r matches Some(n) ==> n > current_size,
            [C09|policy.trait.answer] r == old(self).answer(current_size),
//@end
}

//@item policy::StdPolicy

//@impl_open policy::BufPolicy for StdPolicy::grow_to
    open spec fn policy_ok(&self) -> bool { true }
    open spec fn answer(&self, current_size: usize) -> Option<usize> {
        Some(if current_size < 0x80_0000 { (current_size * 2) as usize } else { (current_size + 0x80_0000) as usize })
    }
//@fn policy::BufPolicy for StdPolicy::grow_to ret=r tags=C09
//@spec
        ensures
            [C09|policy.std.formula] r == Some(if current_size < 0x80_0000 { (current_size * 2) as usize } else { (current_size + 0x80_0000) as usize }),
//@body_start
        assert(1usize << 23 == 0x80_0000usize) by (compute);
//@end
}

//@item policy::DoubleUntil

//@impl_open policy::BufPolicy for DoubleUntil::grow_to
    open spec fn policy_ok(&self) -> bool { 1 <= self.0 <= isize::MAX }
    open spec fn answer(&self, current_size: usize) -> Option<usize> {
        Some(if current_size < self.0 { (current_size * 2) as usize } else { (current_size + self.0) as usize })
    }
//@fn policy::BufPolicy for DoubleUntil::grow_to ret=r tags=C09
//@spec
        ensures
            [C09|policy.double_until.formula] r == Some(if current_size < old(self).0 { (current_size * 2) as usize } else { (current_size + old(self).0) as usize }),
            [C09|policy.double_until.unchanged] final(self).0 == old(self).0,
//@end
}

//@item policy::DoubleUntilLimited

//@impl_open policy::DoubleUntilLimited::new
    pub closed spec fn du(&self) -> usize { self.double_until }
    pub closed spec fn lim(&self) -> usize { self.limit }
//@fn policy::DoubleUntilLimited::new ret=r tags=C09
//@spec
        ensures
            [C09|policy.limited.new] r.du() == double_until && r.lim() == limit,
//@end
}

//@impl_open policy::BufPolicy for DoubleUntilLimited::grow_to
    open spec fn policy_ok(&self) -> bool { 1 <= self.du() <= isize::MAX }
    open spec fn answer(&self, current_size: usize) -> Option<usize> {
        let n = if current_size < self.du() { current_size * 2 } else { current_size + self.du() };
        if n <= self.lim() { Some(n as usize) } else { None }
    }
//@fn policy::BufPolicy for DoubleUntilLimited::grow_to ret=r tags=C09
//@spec
        ensures
            [C09|policy.limited.formula] ({
                let n = if current_size < old(self).du() { current_size * 2 } else { current_size + old(self).du() };
                r == (if n <= old(self).lim() { Some(n as usize) } else { None::<usize> }) }),
            [C09|policy.limited.unchanged] final(self).du() == old(self).du() && final(self).lim() == old(self).lim(),
//@end
}

    } // verus!
}
