// =====================================================================================================
// /verif/contracts/40_fastq.rs — src/fastq.rs under contract
// =====================================================================================================
pub mod fastq {
    use vstd::prelude::*;
    use super::io;
    use super::io::Seek;
    use super::buffer_redux;
    use super::memchr_stub::memchr;
    use super::spec::*;
    use super::policy::{BufPolicy, StdPolicy};
    use super::lib_::*;
    use super::stdspecs::*;
    use super::vx_panic;
    use core::slice;
    use core::str::{self, Utf8Error};
    use core::iter::Iterator as StdIterator;
    use vstd::std_specs::iter::IteratorSpec;
    verus! {
    /// local stand-ins so that the crate's `impl Iterator for ..` / `impl iter::IntoIterator for ..` headers can be kept
    /// verbatim: vstd's own Iterator specification protocol cannot be implemented for user types here
    trait Iterator { type Item; #[verifier::prophetic] spec fn it_pre(&self) -> bool; fn next(&mut self) -> Option<Self::Item> requires old(self).it_pre(); }
    mod iter {
        use vstd::prelude::*;
        verus! { pub(super) trait IntoIterator { type Item; type IntoIter; spec fn ii_pre(self) -> bool; fn into_iter(self) -> Self::IntoIter requires self.ii_pre(); } }
    }

//@default vis=strip r12=.

//@item lib::try_opt
//@item lib::unwrap_or

//@item fastq::DefaultBufPolicy
//@item fastq::BUFSIZE

//@item fastq::State attrs="#[derive(Structural, Eq, PartialEq, Clone, Copy)]"

//@item fastq::RecordPos attrs="#[derive(Structural, Copy, Clone, Eq, PartialEq, Ord, PartialOrd)]"

    /// T7: derived PartialOrd on a field-less enum orders by declaration
    spec fn rp(p: RecordPos) -> int { match p { RecordPos::Head => 0, RecordPos::Seq => 1, RecordPos::Sep => 2, RecordPos::Qual => 3 } }
    impl vstd::std_specs::cmp::PartialOrdSpecImpl for RecordPos {
        closed spec fn obeys_partial_cmp_spec() -> bool { true }
        closed spec fn partial_cmp_spec(&self, other: &RecordPos) -> Option<core::cmp::Ordering> {
            if rp(*self) < rp(*other) { Some(core::cmp::Ordering::Less) } else if rp(*self) == rp(*other) { Some(core::cmp::Ordering::Equal) } else { Some(core::cmp::Ordering::Greater) }
        }
    }

//@item fastq::Reader

//@item fastq::Position attrs="#[derive(Structural, PartialEq, Eq)]"
    /// T7: derived Clone
    impl Clone for Position {
        #[verifier::external_body]
        fn clone(&self) -> (r: Self) ensures r == *self { Position { line: self.line, byte: self.byte } }
    }

//@item fastq::Error vis=keep
//@item fastq::ErrorPosition vis=keep

//@impl_open fastq::From for Error::from
//@fn fastq::From for Error::from ret=r tags=C14
//@spec
        ensures
            [C14|fastq.from_io_error] r == Error::Io(e),
//@end
}
    impl vstd::std_specs::convert::FromSpecImpl<io::Error> for Error {
        open spec fn obeys_from_spec() -> bool { true }
        open spec fn from_spec(e: io::Error) -> Error { Error::Io(e) }
    }

//@item fastq::BufferPosition
//@item fastq::RefRecord
    /// T7: derived Clone / Default
    impl Clone for BufferPosition {
        #[verifier::external_body]
        fn clone(&self) -> (r: Self) ensures r == *self { unimplemented!() }
    }
    impl BufferPosition {
        pub closed spec fn is_zero(&self) -> bool { self.pos.0 == 0 && self.pos.1 == 0 && self.seq == 0 && self.sep == 0 && self.qual == 0 }
    }
    impl Default for BufferPosition {
        #[verifier::external_body]
        fn default() -> (r: Self) ensures r.is_zero() { unimplemented!() }
    }

    // ---------------------------------------------------------------------------------------------
    // buffer-level specification of a four-line group starting at offset s of byte string b
    // ---------------------------------------------------------------------------------------------
    pub open spec fn c1(b: Seq<u8>, s: int) -> int { nl(b, s) }
    pub open spec fn c2(b: Seq<u8>, s: int) -> int { nl(b, nl(b, s) + 1) }
    pub open spec fn c3(b: Seq<u8>, s: int) -> int { nl(b, nl(b, nl(b, s) + 1) + 1) }
    pub open spec fn c4(b: Seq<u8>, s: int) -> int { nl(b, nl(b, nl(b, nl(b, s) + 1) + 1) + 1) }

    /// the first k line starts after the record start have been found and stored (k = 4: record end too)
    spec fn chain(b: Seq<u8>, bp: BufferPosition, k: int) -> bool { bp.pos.0 <= b.len() && chain_body(b, bp, k) }
    #[verifier::opaque]
    spec fn chain_body(b: Seq<u8>, bp: BufferPosition, k: int) -> bool {
        let s = bp.pos.0 as int;
        &&& (k >= 1 ==> c1(b, s) < b.len() && bp.seq == c1(b, s) + 1)
        &&& (k >= 2 ==> c2(b, s) < b.len() && bp.sep == c2(b, s) + 1)
        &&& (k >= 3 ==> c3(b, s) < b.len() && bp.qual == c3(b, s) + 1)
        &&& (k >= 4 ==> c4(b, s) < b.len() && bp.pos.1 == c4(b, s))
    }
    /// chain(k) and the next terminator is not in the buffer
    spec fn stuck(b: Seq<u8>, bp: BufferPosition, k: int) -> bool {
        let s = bp.pos.0 as int;
        &&& chain(b, bp, k)
        &&& (k == 0 ==> c1(b, s) == b.len())
        &&& (k == 1 ==> c2(b, s) == b.len())
        &&& (k == 2 ==> c3(b, s) == b.len())
        &&& (k == 3 ==> c4(b, s) == b.len())
    }

    proof fn lemma_chain_bounds(b: Seq<u8>, s: int)
        requires 0 <= s <= b.len()
        ensures s <= c1(b, s) <= b.len(),
                c1(b, s) < b.len() ==> c1(b, s) + 1 <= c2(b, s) <= b.len(),
                c2(b, s) < b.len() ==> c2(b, s) + 1 <= c3(b, s) <= b.len(),
                c3(b, s) < b.len() ==> c3(b, s) + 1 <= c4(b, s) <= b.len(),
                c1(b, s) == b.len() ==> c2(b, s) == b.len(),
                c2(b, s) == b.len() ==> c3(b, s) == b.len(),
                c3(b, s) == b.len() ==> c4(b, s) == b.len(),
    {
        lemma_nl_bounds(b, s);
        if c1(b, s) < b.len() { lemma_nl_bounds(b, c1(b, s) + 1); }
        if c2(b, s) < b.len() { lemma_nl_bounds(b, c2(b, s) + 1); }
        if c3(b, s) < b.len() { lemma_nl_bounds(b, c3(b, s) + 1); }
    }


    // ---------------------------------------------------------------------------------------------
    // what the format rules say about the group starting at offset s of byte string b (DESIGN 3.3);
    // used both on the buffer and on the whole file
    // ---------------------------------------------------------------------------------------------
    pub open spec fn g_head(b: Seq<u8>, s: int) -> Seq<u8> { trim(b.subrange(s + 1, c1(b, s))) }
    pub open spec fn g_seq(b: Seq<u8>, s: int) -> Seq<u8> { trim(b.subrange(c1(b, s) + 1, c2(b, s))) }
    pub open spec fn g_qual(b: Seq<u8>, s: int) -> Seq<u8> { trim(b.subrange(c3(b, s) + 1, c4(b, s))) }
    pub open spec fn ends_cr(x: Seq<u8>) -> bool { x.len() > 0 && x[x.len() - 1] == 13u8 }
    pub open spec fn g_seq_cr(b: Seq<u8>, s: int) -> bool { ends_cr(b.subrange(c1(b, s) + 1, c2(b, s))) }
    pub open spec fn g_qual_cr(b: Seq<u8>, s: int) -> bool { ends_cr(b.subrange(c3(b, s) + 1, c4(b, s))) }
    /// sequence and quality line end with the same terminator; end of input counts as either
    pub open spec fn same_term(b: Seq<u8>, s: int) -> bool {
        (g_seq_cr(b, s) == g_qual_cr(b, s)) || (c4(b, s) == b.len() && !g_qual_cr(b, s))
    }
    pub open spec fn trimmed_eq(b: Seq<u8>, s: int) -> bool { g_seq(b, s).len() == g_qual(b, s).len() }
    /// C02: the length verdict is claimed only for same-terminator records
    #[verifier::opaque]
    pub open spec fn may_accept(b: Seq<u8>, s: int) -> bool { same_term(b, s) ==> trimmed_eq(b, s) }
    #[verifier::opaque]
    pub open spec fn may_reject(b: Seq<u8>, s: int) -> bool { same_term(b, s) ==> !trimmed_eq(b, s) }
    /// id reported in errors: header without '@', up to the first space; only if the header line has a byte
    pub open spec fn g_id(b: Seq<u8>, s: int) -> Option<Seq<u8>> {
        if c1(b, s) > s { Some(id_of(g_head(b, s))) } else { None }
    }
    /// three terminators exist from s on: a four-line group (its last line may end at end of input)
    pub open spec fn group_complete(b: Seq<u8>, s: int) -> bool { 0 <= s < b.len() && c3(b, s) < b.len() }
    /// start and separator bytes are right and the length verdict permits acceptance
    pub open spec fn vok(b: Seq<u8>, s: int) -> bool {
        b[s] == 64u8 && b[c2(b, s) + 1] == 43u8 && may_accept(b, s)
    }

    spec fn id_matches(id: Option<String>, want: Option<Seq<u8>>) -> bool {
        match (id, want) {
            (None, None) => true,
            (Some(st), Some(bytes)) => st@ == lossy(bytes),
            _ => false,
        }
    }

    /// the error `validate` must produce for a complete group at s (first broken rule wins)
    /// a format error (not an I/O error, not a buffer-limit error)
    pub open spec fn fmt_variant(e: Error) -> bool { !(e is Io) && !(e is BufferLimit) }
    spec fn verr(e: Error, b: Seq<u8>, s: int, line: int) -> bool { fmt_variant(e) && verr_body(e, b, s, line) }
    #[verifier::opaque]
    spec fn verr_body(e: Error, b: Seq<u8>, s: int, line: int) -> bool {
        if b[s] != 64u8 {
            e matches Error::InvalidStart { found, pos } && found == b[s] && pos.line == line && pos.id is None
        } else if b[c2(b, s) + 1] != 43u8 {
            e matches Error::InvalidSep { found, pos } && found == b[c2(b, s) + 1] && pos.line == line + 2 && id_matches(pos.id, g_id(b, s))
        } else {
            e matches Error::UnequalLengths { seq, qual, pos } && seq == g_seq(b, s).len() && qual == g_qual(b, s).len()
                && pos.line == line && id_matches(pos.id, g_id(b, s)) && may_reject(b, s)
        }
    }

    /// every LF-separated piece of b[i..] is blank (empty or a lone CR)
    pub open spec fn all_blank(b: Seq<u8>, i: int) -> bool
        decreases b.len() - i via all_blank_dec
    {
        if i < 0 || i > b.len() { true } else {
            let k = nl(b, i);
            blank(b.subrange(i, k)) && (k < b.len() ==> all_blank(b, k + 1))
        }
    }
    #[via_fn]
    proof fn all_blank_dec(b: Seq<u8>, i: int) { if 0 <= i <= b.len() { lemma_nl_bounds(b, i); } }
    /// number of line terminators from s on when the group is incomplete (0..=2)
    pub open spec fn nterm(b: Seq<u8>, s: int) -> int {
        if c1(b, s) >= b.len() { 0 } else if c2(b, s) >= b.len() { 1 } else { 2 }
    }
    /// error for a group cut short by the end of input
    spec fn eerr(e: Error, b: Seq<u8>, s: int, line: int) -> bool { fmt_variant(e) && eerr_body(e, b, s, line) }
    #[verifier::opaque]
    spec fn eerr_body(e: Error, b: Seq<u8>, s: int, line: int) -> bool {
        e matches Error::UnexpectedEnd { pos } && pos.line == line + nterm(b, s)
            && id_matches(pos.id, if c1(b, s) < b.len() { g_id(b, s) } else { None })
    }

    impl BufferPosition {
        /// all four offsets describe the group at pos.0 (its last line may end at the end of b)
        spec fn complete(&self, b: Seq<u8>) -> bool {
            chain(b, *self, 3) && self.pos.1 == c4(b, self.pos.0 as int)
        }
        /// complete, validated record
        spec fn valid(&self, b: Seq<u8>) -> bool {
            self.complete(b) && vok(b, self.pos.0 as int)
        }
    }

    /// chain/stuck are invariant under dropping the bytes in front of the record start
    proof fn lemma_chain_shift(b: Seq<u8>, bp: BufferPosition, k: int)
        requires chain(b, bp, k), 0 <= k <= 4
        ensures ({
            let c = bp.pos.0 as int;
            let b2 = b.subrange(c, b.len() as int);
            let bp2 = BufferPosition { pos: (0, if k >= 4 { (bp.pos.1 - c) as usize } else { bp.pos.1 }),
                                       seq: if k >= 1 { (bp.seq - c) as usize } else { bp.seq },
                                       sep: if k >= 2 { (bp.sep - c) as usize } else { bp.sep },
                                       qual: if k >= 3 { (bp.qual - c) as usize } else { bp.qual } };
            &&& chain(b2, bp2, k)
            &&& (stuck(b, bp, k) ==> stuck(b2, bp2, k))
            &&& (k >= 1 ==> bp.seq >= c) && (k >= 2 ==> bp.sep >= c) && (k >= 3 ==> bp.qual >= c)
        })
    {
        reveal(chain_body);
        let c = bp.pos.0 as int;
        let n = b.len() as int;
        let b2 = b.subrange(c, n);
        lemma_chain_bounds(b, c);
        lemma_chain_bounds(b2, 0);
        lemma_nl_window(b, c, n, c);
        if c1(b2, 0) < b2.len() {
            lemma_nl_window(b, c, n, c + c1(b2, 0) + 1);
            if c2(b2, 0) < b2.len() {
                lemma_nl_window(b, c, n, c + c2(b2, 0) + 1);
                if c3(b2, 0) < b2.len() {
                    lemma_nl_window(b, c, n, c + c3(b2, 0) + 1);
                }
            }
        }
    }


    // ---------------------------------------------------------------------------------------------
    // buffer -> file lifting: the buffer is the window [a, a+|b|) of the file
    // ---------------------------------------------------------------------------------------------
    proof fn lemma_group_lift(f: Seq<u8>, a: int, b: Seq<u8>, s: int)
        requires 0 <= a, a + b.len() <= f.len(), b == f.subrange(a, a + b.len()), 0 <= s <= b.len(),
                 c3(b, s) < b.len(),
                 c4(b, s) < b.len() || a + b.len() == f.len(),
        ensures
            c1(f, a + s) == a + c1(b, s), c2(f, a + s) == a + c2(b, s), c3(f, a + s) == a + c3(b, s), c4(f, a + s) == a + c4(b, s),
            s <= c1(b, s) < c2(b, s) < c3(b, s) < c4(b, s) <= b.len(),
            group_complete(f, a + s), group_complete(b, s),
            c1(b, s) > s ==> g_head(f, a + s) == g_head(b, s),
            g_seq(f, a + s) == g_seq(b, s), g_qual(f, a + s) == g_qual(b, s),
            g_id(f, a + s) == g_id(b, s),
            same_term(f, a + s) == same_term(b, s), trimmed_eq(f, a + s) == trimmed_eq(b, s),
            may_accept(f, a + s) == may_accept(b, s), may_reject(f, a + s) == may_reject(b, s),
            f[a + s] == b[s], f[c2(f, a + s) + 1] == b[c2(b, s) + 1],
            vok(f, a + s) == vok(b, s),
            forall|e: Error, line: int| verr(e, f, a + s, line) == verr(e, b, s, line),
    {
        reveal(may_accept); reveal(may_reject); reveal(verr_body);
        let n = b.len() as int;
        lemma_chain_bounds(b, s);
        lemma_nl_window(f, a, a + n, a + s);
        lemma_nl_window(f, a, a + n, a + c1(b, s) + 1);
        lemma_nl_window(f, a, a + n, a + c2(b, s) + 1);
        lemma_nl_window(f, a, a + n, a + c3(b, s) + 1);
        lemma_nl_bounds(f, a + c3(b, s) + 1);
        if c1(b, s) > s { assert(b.subrange(s + 1, c1(b, s)) =~= f.subrange(a + s + 1, a + c1(b, s))); }
        assert(b.subrange(c1(b, s) + 1, c2(b, s)) =~= f.subrange(a + c1(b, s) + 1, a + c2(b, s)));
        assert(b.subrange(c3(b, s) + 1, c4(b, s)) =~= f.subrange(a + c3(b, s) + 1, a + c4(b, s)));
        assert(f[a + s] == b[s]);
        assert(f[a + c2(b, s) + 1] == b[c2(b, s) + 1]);
    }

    /// the group is cut short by the end of the input, which the buffer holds
    proof fn lemma_tail_lift(f: Seq<u8>, a: int, b: Seq<u8>, s: int)
        requires 0 <= a, a + b.len() == f.len(), b == f.subrange(a, a + b.len()), 0 <= s <= b.len(),
                 c3(b, s) == b.len(),
        ensures
            !group_complete(f, a + s),
            f.subrange(a + s, f.len() as int) == b.subrange(s, b.len() as int),
            nterm(f, a + s) == nterm(b, s),
            (c1(f, a + s) < f.len()) == (c1(b, s) < b.len()),
            c1(b, s) < b.len() ==> g_id(f, a + s) == g_id(b, s),
            forall|e: Error, line: int| eerr(e, f, a + s, line) == eerr(e, b, s, line),
    {
        reveal(eerr_body);
        let n = b.len() as int;
        lemma_chain_bounds(b, s);
        lemma_nl_window(f, a, a + n, a + s);
        lemma_nl_bounds(f, a + s);
        if c1(b, s) < n {
            lemma_nl_window(f, a, a + n, a + c1(b, s) + 1);
            lemma_nl_bounds(f, a + c1(b, s) + 1);
            if c1(b, s) > s { assert(b.subrange(s + 1, c1(b, s)) =~= f.subrange(a + s + 1, a + c1(b, s))); }
            if c2(b, s) < n {
                lemma_nl_window(f, a, a + n, a + c2(b, s) + 1);
                lemma_nl_bounds(f, a + c2(b, s) + 1);
            }
        }
        assert(f.subrange(a + s, f.len() as int) =~= b.subrange(s, n));
    }

    /// what a complete position means in terms of the nl chain
    proof fn lemma_complete_facts(b: Seq<u8>, bp: BufferPosition)
        requires bp.complete(b)
        ensures ({ let s = bp.pos.0 as int;
            &&& s <= c1(b, s) < c2(b, s) < c3(b, s) < c4(b, s) <= b.len()
            &&& bp.seq == c1(b, s) + 1 && bp.sep == c2(b, s) + 1 && bp.qual == c3(b, s) + 1 && bp.pos.1 == c4(b, s) })
    {
        reveal(chain_body);
        lemma_chain_bounds(b, bp.pos.0 as int);
    }
    /// stuck(k) implies chain(k) and weaker chains
    proof fn lemma_stuck_facts(b: Seq<u8>, bp: BufferPosition, k: int)
        requires stuck(b, bp, k), 0 <= k <= 3
        ensures chain(b, bp, k), (k == 3 ==> c3(b, bp.pos.0 as int) < b.len() && c4(b, bp.pos.0 as int) == b.len()),
                (k < 3 ==> c3(b, bp.pos.0 as int) == b.len())
    {
        reveal(chain_body);
        lemma_chain_bounds(b, bp.pos.0 as int);
    }

    /// appending bytes does not disturb the line starts already found
    proof fn lemma_chain_prefix(b: Seq<u8>, b2: Seq<u8>, bp: BufferPosition, k: int)
        requires chain(b, bp, k), 0 <= k <= 4, b.len() <= b2.len(), b2.subrange(0, b.len() as int) == b
        ensures chain(b2, bp, k)
    {
        reveal(chain_body);
        let s = bp.pos.0 as int;
        let n = b.len() as int;
        lemma_chain_bounds(b, s);
        assert(b == b2.subrange(0, n));
        lemma_nl_window(b2, 0, n, s);
        if k >= 1 { lemma_nl_window(b2, 0, n, c1(b, s) + 1); }
        if k >= 2 { lemma_nl_window(b2, 0, n, c2(b, s) + 1); }
        if k >= 3 { lemma_nl_window(b2, 0, n, c3(b, s) + 1); }
    }

    /// a stuck search means the group's last terminator lies beyond the buffer window
    proof fn lemma_stuck_beyond(f: Seq<u8>, a: int, b: Seq<u8>, bp: BufferPosition, k: int)
        requires 0 <= a, a + b.len() <= f.len(), b == f.subrange(a, a + b.len()), stuck(b, bp, k), 0 <= k <= 3
        ensures c4(f, a + bp.pos.0) >= a + b.len()
    {
        reveal(chain_body);
        let n = b.len() as int;
        let s = bp.pos.0 as int;
        lemma_chain_bounds(b, s);
        lemma_chain_bounds(f, a + s);
        lemma_nl_window(f, a, a + n, a + s);
        if c1(b, s) < n {
            lemma_nl_window(f, a, a + n, a + c1(b, s) + 1);
            if c2(b, s) < n {
                lemma_nl_window(f, a, a + n, a + c2(b, s) + 1);
                if c3(b, s) < n {
                    lemma_nl_window(f, a, a + n, a + c3(b, s) + 1);
                }
            }
        }
    }

    /// stepping over a validated, terminated record keeps byte and line coordinates true
    proof fn lemma_advance(f: Seq<u8>, a: int, b: Seq<u8>, bp: BufferPosition)
        requires 0 <= a, a + b.len() <= f.len(), b == f.subrange(a, a + b.len()), bp.valid(b), bp.pos.1 < b.len(), f.len() < 0x4000_0000_0000_0000
        ensures true_line(f, a + bp.pos.1 + 1) == true_line(f, a + bp.pos.0) + 4,
                bp.pos.0 <= bp.pos.1, a + bp.pos.1 + 1 <= f.len(),
                true_line(f, a + bp.pos.1 + 1) + 4 <= u64::MAX,
    {
        reveal(chain_body);
        let s = bp.pos.0 as int;
        lemma_complete_facts(b, bp);
        lemma_group_lift(f, a, b, s);
        lemma_group_lines(f, a + s);
        lemma_count_lf_mono(f, 0, a + bp.pos.1 + 1);
    }

    /// a terminated group spans exactly four lines
    proof fn lemma_group_lines(f: Seq<u8>, p: int)
        requires 0 <= p <= f.len(), c4(f, p) < f.len()
        ensures true_line(f, c4(f, p) + 1) == true_line(f, p) + 4, p <= c4(f, p)
    {
        lemma_chain_bounds(f, p);
        lemma_count_lf_line(f, p);
        lemma_count_lf_line(f, c1(f, p) + 1);
        lemma_count_lf_line(f, c2(f, p) + 1);
        lemma_count_lf_line(f, c3(f, p) + 1);
    }

    /// nothing but blank lines (or nothing at all) from p on, and no complete group
    pub open spec fn end_ok(f: Seq<u8>, p: int) -> bool {
        p >= f.len() || (!group_complete(f, p) && all_blank(f.subrange(p, f.len() as int), 0))
    }
    /// the format error that the group at p must produce
    spec fn fmt_err(e: Error, f: Seq<u8>, p: int, line: int) -> bool {
        0 <= p < f.len() && (
            (group_complete(f, p) && verr(e, f, p, line))
            || (!group_complete(f, p) && !all_blank(f.subrange(p, f.len() as int), 0) && eerr(e, f, p, line)))
    }

    // ---- C03 / C17: the contracts leave no freedom ---------------------------------------------------------------------
    /// two errors agree in variant and in every field (ids compared as text)
    spec fn same_pos(a: ErrorPosition, b: ErrorPosition) -> bool {
        a.line == b.line && match (a.id, b.id) { (None, None) => true, (Some(x), Some(y)) => x@ == y@, _ => false }
    }
    spec fn same_error(a: Error, b: Error) -> bool {
        match (a, b) {
            (Error::UnequalLengths { seq: s1, qual: q1, pos: p1 }, Error::UnequalLengths { seq: s2, qual: q2, pos: p2 }) => s1 == s2 && q1 == q2 && same_pos(p1, p2),
            (Error::InvalidStart { found: f1, pos: p1 }, Error::InvalidStart { found: f2, pos: p2 }) => f1 == f2 && same_pos(p1, p2),
            (Error::InvalidSep { found: f1, pos: p1 }, Error::InvalidSep { found: f2, pos: p2 }) => f1 == f2 && same_pos(p1, p2),
            (Error::UnexpectedEnd { pos: p1 }, Error::UnexpectedEnd { pos: p2 }) => same_pos(p1, p2),
            _ => false,
        }
    }
    /// the format error of the group at p is a function of the file and the cursor: whatever the reader's capacity, policy or
    /// read chunking was, two errors that both meet the contract are the same error
    proof fn lemma_fmt_err_unique(e1: Error, e2: Error, f: Seq<u8>, p: int, line: int)
        requires fmt_err(e1, f, p, line), fmt_err(e2, f, p, line)
        ensures
            [C03,C17|lemma.fastq.fmt_err_is_a_function_of_file_and_cursor] same_error(e1, e2),
    {
        reveal(verr_body); reveal(eerr_body);
    }
    /// end of input, a record and a format error exclude each other (for records whose two data lines end alike)
    proof fn lemma_outcomes_exclusive(e: Error, f: Seq<u8>, p: int, line: int)
        requires 0 <= p, group_complete(f, p) ==> same_term(f, p)
        ensures
            [C03|lemma.fastq.outcomes_exclusive] !(end_ok(f, p) && group_complete(f, p) && vok(f, p))
                && !(end_ok(f, p) && fmt_err(e, f, p, line))
                && !(group_complete(f, p) && vok(f, p) && fmt_err(e, f, p, line)),
    {
        reveal(verr_body); reveal(eerr_body); reveal(may_accept); reveal(may_reject);
    }

    /// the three fields of the record that bp describes in b
    spec fn recv(bp: BufferPosition, b: Seq<u8>) -> (Seq<u8>, Seq<u8>, Seq<u8>) {
        (g_head(b, bp.pos.0 as int), g_seq(b, bp.pos.0 as int), g_qual(b, bp.pos.0 as int))
    }
    /// file offset of the i-th group counting from p (groups taken as they come, each ending at its fourth terminator)
    pub open spec fn gstart(f: Seq<u8>, p: int, i: int) -> int
        decreases i
    {
        if i <= 0 { p } else { c4(f, gstart(f, p, i - 1)) + 1 }
    }
    /// the group at p (with its last terminator) needs more than cap bytes
    pub open spec fn nofit(f: Seq<u8>, p: int, cap: int) -> bool { c4(f, p) - p >= cap }
    /// the first k groups from p are complete and valid records
    pub open spec fn run_ok(f: Seq<u8>, p: int, k: int) -> bool {
        forall|i: int| 0 <= i < k ==> group_complete(f, #[trigger] gstart(f, p, i)) && vok(f, gstart(f, p, i))
    }

    /// a validated, terminated record stays what it is when bytes are appended to the buffer
    proof fn lemma_valid_prefix(b: Seq<u8>, b2: Seq<u8>, bp: BufferPosition)
        requires bp.valid(b), bp.pos.1 < b.len(), b.len() <= b2.len(), b2.subrange(0, b.len() as int) == b
        ensures bp.valid(b2), bp.pos.1 < b2.len(),
                g_head(b2, bp.pos.0 as int) == g_head(b, bp.pos.0 as int),
                g_seq(b2, bp.pos.0 as int) == g_seq(b, bp.pos.0 as int),
                g_qual(b2, bp.pos.0 as int) == g_qual(b, bp.pos.0 as int),
    {
        reveal(chain_body);
        let s = bp.pos.0 as int;
        lemma_chain_bounds(b, s);
        lemma_nl_bounds(b, s);
        assert(b == b2.subrange(0, b.len() as int));
        lemma_group_lift(b2, 0, b, s);
    }

    /// every collected position is a validated record of b; all are terminated, except possibly the last one
    /// when the input ended without a final terminator (last_open)
    #[verifier::opaque]
    spec fn ps_valid(ps: Seq<BufferPosition>, b: Seq<u8>, last_open: bool) -> bool {
        forall|i: int| 0 <= i < ps.len() ==> (#[trigger] ps[i]).valid(b) && (ps[i].pos.1 < b.len() || (i == ps.len() - 1 && last_open))
    }
    /// the i-th collected position shows the fields of the i-th group of the file counted from p0
    #[verifier::opaque]
    spec fn ps_lifted(ps: Seq<BufferPosition>, b: Seq<u8>, f: Seq<u8>, p0: int) -> bool {
        forall|i: int| 0 <= i < ps.len() ==> recv(#[trigger] ps[i], b) == (g_head(f, gstart(f, p0, i)), g_seq(f, gstart(f, p0, i)), g_qual(f, gstart(f, p0, i)))
    }
    proof fn lemma_ps_empty(b: Seq<u8>, f: Seq<u8>, p0: int, open: bool)
        ensures ps_valid(Seq::<BufferPosition>::empty(), b, open), ps_lifted(Seq::<BufferPosition>::empty(), b, f, p0), run_ok(f, p0, 0)
    { reveal(ps_valid); reveal(ps_lifted); }
    /// growing the buffer (no compaction) keeps the collected positions
    proof fn lemma_ps_prefix(ps: Seq<BufferPosition>, b0: Seq<u8>, b: Seq<u8>, f: Seq<u8>, p0: int)
        requires ps_valid(ps, b0, false), b0.len() <= b.len(), b.subrange(0, b0.len() as int) == b0
        ensures ps_valid(ps, b, false), ps_lifted(ps, b0, f, p0) ==> ps_lifted(ps, b, f, p0)
    {
        reveal(ps_valid); reveal(ps_lifted);
        assert forall|i: int| 0 <= i < ps.len() implies (#[trigger] ps[i]).valid(b) && ps[i].pos.1 < b.len() && recv(ps[i], b) == recv(ps[i], b0) by {
            lemma_valid_prefix(b0, b, ps[i]);
        }
    }
    /// one more record: the group at the cursor, found and validated in the buffer window [a, a+|b|) of f
    proof fn lemma_ps_push(ps: Seq<BufferPosition>, bp: BufferPosition, b: Seq<u8>, a: int, f: Seq<u8>, p0: int, open: bool, lifted: bool)
        requires ps_valid(ps, b, false), bp.valid(b), bp.pos.1 < b.len() || open,
                 0 <= a, a + b.len() <= f.len(), b == f.subrange(a, a + b.len()),
                 lifted ==> run_ok(f, p0, ps.len() as int) && ps_lifted(ps, b, f, p0) && a + bp.pos.0 == gstart(f, p0, ps.len() as int)
                            && (bp.pos.1 < b.len() || a + b.len() == f.len()),
        ensures ps_valid(ps.push(bp), b, open), bp.pos.0 <= bp.pos.1,
                lifted ==> run_ok(f, p0, ps.len() as int + 1) && ps_lifted(ps.push(bp), b, f, p0) && gstart(f, p0, ps.len() as int + 1) == a + bp.pos.1 + 1,
    {
        reveal(ps_valid); reveal(ps_lifted);
        let k = ps.len() as int;
        let s = bp.pos.0 as int;
        lemma_complete_facts(b, bp);
        lemma_nl_bounds(b, s);
        let ps2 = ps.push(bp);
        assert forall|i: int| 0 <= i < ps2.len() implies (#[trigger] ps2[i]).valid(b) && (ps2[i].pos.1 < b.len() || (i == ps2.len() - 1 && open)) by {
            if i < k { assert(ps2[i] == ps[i]); }
        }
        if lifted {
            lemma_group_lift(f, a, b, s);
            assert(gstart(f, p0, k + 1) == c4(f, gstart(f, p0, k)) + 1);
            assert forall|i: int| 0 <= i < k + 1 implies group_complete(f, #[trigger] gstart(f, p0, i)) && vok(f, gstart(f, p0, i)) by { }
            assert forall|i: int| 0 <= i < ps2.len() implies recv(#[trigger] ps2[i], b) == (g_head(f, gstart(f, p0, i)), g_seq(f, gstart(f, p0, i)), g_qual(f, gstart(f, p0, i))) by {
                if i < k { assert(ps2[i] == ps[i]); }
            }
        }
    }

//@impl_open fastq::BufferPosition::reset
//@fn fastq::BufferPosition::reset tags=C05,C06
//@spec
        ensures
            [C05|fastq.bufpos.reset] final(self).pos.0 == start && final(self).pos.1 == 0 && final(self).seq == old(self).seq
                && final(self).sep == old(self).sep && final(self).qual == old(self).qual,
//@end

//@fn fastq::BufferPosition::head ret=r tags=C12,C13,C06
//@spec
        requires
            self.pos.0 + 2 <= self.seq <= buffer@.len(),
        ensures
            [C02,C12,C13|fastq.bufpos.head] r@ == trim(buffer@.subrange(self.pos.0 + 1, self.seq - 1)),
//@end

//@fn fastq::BufferPosition::seq ret=r tags=C12,C13,C06
//@spec
        requires
            self.seq < self.sep <= buffer@.len(),
        ensures
            [C02,C12,C13|fastq.bufpos.seq] r@ == trim(buffer@.subrange(self.seq as int, self.sep - 1)),
//@end

//@fn fastq::BufferPosition::qual ret=r tags=C12,C13,C06
//@spec
        requires
            self.qual <= self.pos.1 <= buffer@.len(),
        ensures
            [C02,C12,C13|fastq.bufpos.qual] r@ == trim(buffer@.subrange(self.qual as int, self.pos.1 as int)),
//@end
}

//@impl_open fastq::Reader::find_line
    spec fn b(&self) -> Seq<u8> { self.buf_reader.buf() }

//@fn fastq::Reader::get_buf ret=r tags=C06
//@spec
        ensures
            [C02,C03,C04,C06|fastq.get_buf.is_buffer] r@ == self.b(),
//@end

//@fn fastq::Reader::find_line ret=r tags=C02,C06
//@spec
        requires
            search_start <= self.b().len(),
            self.buf_reader.wf(),
        ensures
            [C02,C03,C04|fastq.find_line.result] match r {
                Some(p) => nl(self.b(), search_start as int) < self.b().len() && p == nl(self.b(), search_start as int) + 1,
                None => nl(self.b(), search_start as int) == self.b().len(),
            },
//@body_start
        proof {
            let bb = self.b(); let ss = search_start as int;
            lemma_nl_bounds(bb, ss);
            let w = bb.subrange(ss, bb.len() as int);
            lemma_nl_window(bb, ss, bb.len() as int, ss);
            lemma_nl_bounds(w, 0);
            // memchr's answer is nl(w, 0)
            assert forall|k: int| 0 <= k <= w.len() && (forall|j: int| 0 <= j < k ==> w[j] != 10u8) && (k < w.len() ==> w[k] == 10u8)
                implies nl(w, 0) == k by { lemma_nl_is(w, 0, k); }
        }
//@end

    // ---- ghost views of the reader -------------------------------------------------------------
    spec fn f(&self) -> Seq<u8> { self.buf_reader.file() }
    spec fn base(&self) -> int { self.buf_reader.base() as int }
    /// no source error so far (after one, only safety is claimed: a failed refill leaves a short buffer)
    spec fn clean(&self) -> bool { self.buf_reader.errs().len() == 0 }
    /// buffer is full or holds the end of the input (vacuous once the source has failed)
    spec fn filled(&self) -> bool { !self.clean() || self.b().len() == self.buf_reader.cap() || self.buf_reader.at_eof() }
    /// basics every operation needs
    spec fn wf0(&self) -> bool {
        &&& self.buf_reader.wf()
        &&& self.buf_reader.head() == 0
        &&& self.buf_reader.cap() >= 1
        &&& self.buf_policy.policy_ok()
    }
    /// nothing but buf_pos / incomplete_pos / state may differ
    spec fn same_io(&self, o: &Self) -> bool {
        self.buf_reader == o.buf_reader && self.position == o.position && self.buf_policy == o.buf_policy
    }

//@fn fastq::Reader::increment_record tags=C05,C03,C06
//@spec
        requires
            old(self).buf_pos.pos.0 <= old(self).buf_pos.pos.1 + 1,
            old(self).buf_pos.pos.1 < usize::MAX,
            old(self).position.byte + (old(self).buf_pos.pos.1 + 1 - old(self).buf_pos.pos.0) <= u64::MAX,
            old(self).position.line + 4 <= u64::MAX,
        ensures
            [C02,C03,C04,C05|fastq.increment_record.byte] final(self).position.byte == old(self).position.byte + (old(self).buf_pos.pos.1 + 1 - old(self).buf_pos.pos.0),
            [C02,C03,C04,C05,C12,C17|fastq.increment_record.line] final(self).position.line == old(self).position.line + 4,
            [C02,C03,C04,C05|fastq.increment_record.start] final(self).buf_pos.pos.0 == old(self).buf_pos.pos.1 + 1,
            [C02,C03,C04,C05,C06|fastq.increment_record.frame] final(self).buf_reader == old(self).buf_reader && final(self).buf_policy == old(self).buf_policy
                && final(self).state == old(self).state && final(self).incomplete_pos == old(self).incomplete_pos
                && final(self).buf_pos.pos.1 == old(self).buf_pos.pos.1 && final(self).buf_pos.seq == old(self).buf_pos.seq
                && final(self).buf_pos.sep == old(self).buf_pos.sep && final(self).buf_pos.qual == old(self).buf_pos.qual,
//@end

//@fn fastq::Reader::search ret=r tags=C02,C06
//@spec
        requires
            old(self).buf_reader.wf(),
            old(self).buf_pos.pos.0 <= old(self).b().len(),
            old(self).position.line + 4 <= u64::MAX,
        ensures
            [C02,C03,C04,C05,C06|fastq.search.frame] final(self).same_io(old(self)) && final(self).buf_pos.pos.0 == old(self).buf_pos.pos.0,
            [C02,C03,C04|fastq.search.found] r matches Ok(true) ==> final(self).buf_pos.valid(final(self).b()) && final(self).buf_pos.pos.1 < final(self).b().len()
                && final(self).state == old(self).state && final(self).incomplete_pos == old(self).incomplete_pos,
            [C02,C03,C04,C17|fastq.search.incomplete] r matches Ok(false) ==> (final(self).incomplete_pos matches Some(k) && stuck(final(self).b(), final(self).buf_pos, rp(k)))
                && final(self).state == old(self).state,
            [C02,C03,C14,C17|fastq.search.error] r matches Err(e) ==> final(self).buf_pos.complete(final(self).b()) && final(self).buf_pos.pos.1 < final(self).b().len()
                && verr(e, final(self).b(), final(self).buf_pos.pos.0 as int, final(self).position.line as int)
                && final(self).state == State::Finished && final(self).incomplete_pos == old(self).incomplete_pos,
//@body_start
        proof { reveal(chain_body); lemma_chain_bounds(self.b(), self.buf_pos.pos.0 as int); }
//@end

//@fn fastq::Reader::search_incomplete ret=r tags=C02,C06,C17
//@spec
        requires
            old(self).buf_reader.wf(),
            chain(old(self).b(), old(self).buf_pos, rp(pos)),
            old(self).position.line + 4 <= u64::MAX,
        ensures
            [C02,C03,C04,C05,C06|fastq.search_incomplete.frame] final(self).same_io(old(self)) && final(self).buf_pos.pos.0 == old(self).buf_pos.pos.0,
            [C02,C03,C04|fastq.search_incomplete.found] r matches Ok(None) ==> final(self).buf_pos.valid(final(self).b()) && final(self).buf_pos.pos.1 < final(self).b().len()
                && final(self).state == old(self).state && final(self).incomplete_pos is None,
            [C02,C03,C04,C17|fastq.search_incomplete.incomplete] r matches Ok(Some(k)) ==> stuck(final(self).b(), final(self).buf_pos, rp(k)) && rp(k) >= rp(pos)
                && final(self).incomplete_pos == Some(k) && final(self).state == old(self).state,
            [C02,C03,C04,C14,C17|fastq.search_incomplete.error] r matches Err(e) ==> final(self).buf_pos.complete(final(self).b()) && final(self).buf_pos.pos.1 < final(self).b().len()
                && verr(e, final(self).b(), final(self).buf_pos.pos.0 as int, final(self).position.line as int)
                && final(self).state == State::Finished && final(self).incomplete_pos is None,
//@body_start
        proof { reveal(chain_body); lemma_chain_bounds(self.b(), self.buf_pos.pos.0 as int); }
//@end

//@fn fastq::Reader::grow ret=r tags=C09,C06,C03
//@local cap ord=0 kind=let
//@spec
        requires
            old(self).wf0(),
            old(self).b().len() == old(self).buf_reader.cap(),
        ensures
            [C02,C03,C04,C05,C06,C09|fastq.grow.frame] final(self).buf_reader.buf() == old(self).buf_reader.buf() && final(self).buf_reader.base() == old(self).buf_reader.base()
                && final(self).buf_reader.same_source(&old(self).buf_reader)
                && final(self).buf_pos == old(self).buf_pos && final(self).position == old(self).position
                && final(self).state == old(self).state && final(self).incomplete_pos == old(self).incomplete_pos
                && final(self).wf0(),
            [C09|fastq.grow.asks_policy_with_capacity] match old(self).buf_policy.answer(old(self).buf_reader.cap() as usize) {
                Some(n) => r is Ok && final(self).buf_reader.cap() >= n && final(self).buf_reader.cap() > old(self).buf_reader.cap(),
                None => r matches Err(Error::BufferLimit) && final(self).buf_reader.cap() == old(self).buf_reader.cap(),
            },
//@end

//@fn fastq::Reader::make_room tags=C03,C06,C09
//@spec
        requires
            old(self).wf0(),
            chain(old(self).b(), old(self).buf_pos, rp(incomplete_pos)),
        ensures
            [C02,C03,C04,C05,C06|fastq.make_room.window] final(self).wf0() && final(self).buf_reader.cap() == old(self).buf_reader.cap()
                && final(self).b() == old(self).b().subrange(old(self).buf_pos.pos.0 as int, old(self).b().len() as int)
                && final(self).base() == old(self).base() + old(self).buf_pos.pos.0
                && final(self).buf_reader.same_source(&old(self).buf_reader),
            [C02,C03,C04,C05|fastq.make_room.offsets_shifted] final(self).buf_pos.pos.0 == 0
                && chain(final(self).b(), final(self).buf_pos, rp(incomplete_pos))
                && (stuck(old(self).b(), old(self).buf_pos, rp(incomplete_pos)) ==> stuck(final(self).b(), final(self).buf_pos, rp(incomplete_pos))),
            [C02,C03,C04,C05,C06|fastq.make_room.frame] final(self).position == old(self).position && final(self).state == old(self).state
                && final(self).incomplete_pos == old(self).incomplete_pos && final(self).buf_policy == old(self).buf_policy,
//@body_start
        proof { reveal(chain_body); lemma_chain_shift(self.b(), self.buf_pos, rp(incomplete_pos)); }
//@end

//@fn fastq::Reader::validate ret=r tags=C02,C12,C17,C06
//@spec
        requires
            old(self).buf_reader.wf(),
            old(self).buf_pos.complete(old(self).b()),
            old(self).position.line + 4 <= u64::MAX,
        ensures
            [C02,C03,C04,C05,C06|fastq.validate.frame] final(self).same_io(old(self)) && final(self).buf_pos == old(self).buf_pos
                && final(self).incomplete_pos == old(self).incomplete_pos,
            [C02,C03,C04,C12|fastq.validate.ok] r is Ok ==> vok(final(self).b(), final(self).buf_pos.pos.0 as int) && final(self).state == old(self).state,
            [C02,C03,C12,C14,C17|fastq.validate.err] r matches Err(e) ==> verr(e, final(self).b(), final(self).buf_pos.pos.0 as int, final(self).position.line as int),
            [C02|fastq.validate.err_is_final] r is Err ==> final(self).state == State::Finished,
//@body_start
        proof { reveal(chain_body); reveal(may_accept); reveal(may_reject); reveal(verr_body); lemma_chain_bounds(self.b(), self.buf_pos.pos.0 as int); }
//@end

//@fn fastq::Reader::get_error_pos ret=r tags=C17,C06
//@spec
        requires
            self.buf_reader.wf(),
            self.position.line + line_offset <= u64::MAX,
            parse_id ==> self.buf_pos.pos.0 <= self.buf_pos.seq <= self.b().len(),
        ensures
            [C12,C17|fastq.get_error_pos.line] r.line == self.position.line + line_offset,
            [C17|fastq.get_error_pos.id] id_matches(r.id,
                if parse_id && self.buf_pos.seq - self.buf_pos.pos.0 > 1 {
                    Some(id_of(trim(self.b().subrange(self.buf_pos.pos.0 + 1, self.buf_pos.seq - 1))))
                } else { None }),
//@body_start
        broadcast use lemma_split_cut, lemma_split_cut2;
//@closure 0 params="b: &u8" ret="(r: bool)"
            ensures r == (*b == 32u8)
//@end

//@fn fastq::Reader::check_end ret=r tags=C02,C12,C17,C06
//@local rest ord=0 kind=let
//@spec
        requires
            old(self).buf_reader.wf(),
            stuck(old(self).b(), old(self).buf_pos, rp(pos)),
            old(self).position.line + 4 <= u64::MAX,
        ensures
            [C02,C03,C04,C05,C06|fastq.check_end.frame] final(self).same_io(old(self)) && final(self).buf_pos.pos.0 == old(self).buf_pos.pos.0
                && final(self).incomplete_pos == old(self).incomplete_pos,
            [C02,C03,C04,C12|fastq.check_end.last_record] pos == RecordPos::Qual ==> match r {
                Ok(found) => found && final(self).buf_pos.valid(final(self).b()) && final(self).buf_pos.pos.1 == final(self).b().len()
                             && final(self).state == old(self).state,
                Err(e) => verr(e, final(self).b(), final(self).buf_pos.pos.0 as int, final(self).position.line as int)
                          && final(self).buf_pos.complete(final(self).b()) && final(self).state == State::Finished,
            },
            [C02,C03,C04,C12,C17|fastq.check_end.tail] pos != RecordPos::Qual ==> final(self).state == old(self).state && final(self).buf_pos == old(self).buf_pos && match r {
                Ok(found) => !found && all_blank(final(self).b().subrange(final(self).buf_pos.pos.0 as int, final(self).b().len() as int), 0),
                Err(e) => !all_blank(final(self).b().subrange(final(self).buf_pos.pos.0 as int, final(self).b().len() as int), 0)
                          && eerr(e, final(self).b(), final(self).buf_pos.pos.0 as int, final(self).position.line as int),
            },
//@body_start
        proof { reveal(chain_body); reveal(eerr_body); lemma_chain_bounds(self.b(), self.buf_pos.pos.0 as int); }
//@closure 0 params="c: &u8" ret="(r: bool)"
            ensures r == (*c == 10u8)
//@closure 1 params="l: &[u8]" ret="(r: bool)"
            [C02,C03,C04,C12|fastq.check_end.blank_test_trims_cr] ensures r == blank(l@)
//@all 0
            invariant_except_break
                vx_r0,
                !split_done(&vx_it0) ==> split_rest(&vx_it0).len() <= rest@.len()
                    && split_rest(&vx_it0) == rest@.subrange(rest@.len() - split_rest(&vx_it0).len(), rest@.len() as int)
                    && all_blank(rest@, 0) == all_blank(rest@, rest@.len() - split_rest(&vx_it0).len()),
                split_done(&vx_it0) ==> all_blank(rest@, 0),
            invariant
                decides_eq(split_pred(&vx_it0), 10u8),
                forall|x: &[u8], y: bool| call_ensures(vx_f0, (x,), y) ==> y == blank(x@),
                forall|x: &[u8]| call_requires(vx_f0, (x,)),
            ensures
                [C02,C03,C04,C12|fastq.check_end.blank_tail_loop] vx_r0 == all_blank(rest@, 0),
            decreases (if split_done(&vx_it0) { 0int } else { split_rest(&vx_it0).len() as int + 1 }),
//---pre
            let ghost sr0 = split_rest(&vx_it0);
//---body
            proof {
                let n = rest@.len() as int;
                let pos0 = n - sr0.len();
                let k = vx_x@.len() as int;
                lemma_split_step_first_of(split_pred(&vx_it0), 10u8, sr0, k);
                lemma_first_of_lf_is_nl(sr0, 0);
                lemma_nl_window(rest@, pos0, n, pos0);
                lemma_nl_bounds(rest@, pos0);
                assert(vx_x@ =~= rest@.subrange(pos0, pos0 + k));
                if k < sr0.len() { assert(split_rest(&vx_it0) =~= rest@.subrange(pos0 + k + 1, n)); }
            }
//@end

    // ---- representation invariant (DESIGN 3.4) -------------------------------------------------
    /// file offset of the group the stored offsets talk about
    spec fn gpos(&self) -> int { self.base() + self.buf_pos.pos.0 }
    spec fn coords(&self) -> bool {
        self.position.line == true_line(self.f(), self.position.byte as int) && self.position.byte <= self.f().len()
    }
    spec fn wf(&self) -> bool {
        &&& self.wf0()
        &&& self.position.byte == self.gpos()
        &&& self.buf_pos.pos.0 <= self.b().len() + 1
        &&& self.position.byte <= self.f().len() + 1
        &&& match self.state {
                State::New => self.base() == 0 && self.buf_pos.pos.0 == 0 && self.incomplete_pos is None && (self.clean() ==> self.b().len() == 0),
                State::Parsing => self.filled() && self.incomplete_pos is None && self.buf_pos.valid(self.b()) && self.buf_pos.pos.1 < self.b().len(),
                State::Positioned => self.filled() && self.buf_pos.pos.0 <= self.b().len()
                    && (self.incomplete_pos matches Some(k) ==> stuck(self.b(), self.buf_pos, rp(k))),
                State::Finished => self.state != State::New ==> self.filled(),
            }
        &&& (self.state != State::Finished ==> self.coords())
    }
    /// cut point inside next(): the reader is about to look for the group at o's cursor
    spec fn ready(&self, o: &Self) -> bool {
        &&& self.wf0() && self.f() == o.f() && self.state == State::Parsing && self.filled()
        &&& self.buf_pos.pos.0 <= self.b().len()
        &&& self.gpos() == o.cursor() && self.position.byte == self.gpos() && self.coords()
        &&& self.position.line + 4 <= u64::MAX
        &&& (self.incomplete_pos matches Some(k) ==> stuck(self.b(), self.buf_pos, rp(k)))
        &&& self.buf_reader.errs() == o.buf_reader.errs()
        &&& (o.state == State::New ==> self.base() == 0 && self.gpos() == 0)
    }
    /// a failed first fill left bytes in the buffer of a reader that is still `New`
    spec fn poisoned(&self) -> bool { self.state == State::New && self.b().len() > 0 }
    /// file offset and line of the next unread group
    spec fn cursor(&self) -> int {
        if self.state == State::Parsing { self.base() + self.buf_pos.pos.1 + 1 } else { self.gpos() }
    }
    spec fn cursor_line(&self) -> int {
        if self.state == State::Parsing { self.position.line + 4 } else { self.position.line as int }
    }

//@fn fastq::Reader::init ret=r tags=C02,C14,C06
//@spec
        requires
            old(self).wf(), old(self).state == State::New,
        ensures
            [C02,C03,C04,C05,C06,C14|fastq.init.frame] final(self).wf0() && final(self).f() == old(self).f() && final(self).buf_policy == old(self).buf_policy
                && final(self).position == old(self).position && final(self).buf_pos == old(self).buf_pos && final(self).incomplete_pos is None
                && final(self).base() == 0 && (r matches Ok(true) || final(self).wf()) && final(self).buf_reader.cap() == old(self).buf_reader.cap(),
            [C02,C03,C04,C14|fastq.init.ok] r matches Ok(more) ==> final(self).buf_reader.errs() == old(self).buf_reader.errs() && final(self).filled()
                && (more ==> final(self).state == State::New && final(self).b().len() > 0)
                && (!more ==> (!old(self).poisoned() ==> final(self).f().len() == 0)),
            [C02,C04,C20|fastq.init.end_is_final] r matches Ok(false) ==> final(self).state == State::Finished,
            [C02,C03,C14,C17|fastq.init.err] r matches Err(e) ==> final(self).state == State::New
                && (e matches Error::Io(x) && final(self).buf_reader.errs() == old(self).buf_reader.errs().push(x)),
//@end

//@fn fastq::Reader::resume_incomplete_search ret=r tags=C02,C03,C06,C09,C14,C17
//@spec
        requires
            old(self).wf0(), old(self).filled(),
            stuck(old(self).b(), old(self).buf_pos, rp(incomplete_pos)),
            old(self).position.byte == old(self).gpos(),
            old(self).coords(),
        ensures
            [C02,C03,C04,C05,C06|fastq.resume.frame] final(self).wf0() && final(self).f() == old(self).f() && final(self).gpos() == old(self).gpos()
                && final(self).position == old(self).position && final(self).filled() && final(self).buf_pos.pos.0 <= final(self).b().len(),
            [C02,C03,C04|fastq.resume.found] r matches Ok(true) ==> final(self).filled() && final(self).buf_pos.valid(final(self).b())
                && final(self).buf_reader.errs() == old(self).buf_reader.errs()
                && ((final(self).state == old(self).state && final(self).incomplete_pos is None && final(self).buf_pos.pos.1 < final(self).b().len())
                    || final(self).state == State::Finished)
                && (final(self).clean() ==> group_complete(final(self).f(), final(self).gpos()) && vok(final(self).f(), final(self).gpos())
                    && final(self).base() + final(self).buf_pos.pos.1 == c4(final(self).f(), final(self).gpos())
                    && (final(self).state == State::Finished && final(self).state != old(self).state ==> c4(final(self).f(), final(self).gpos()) == final(self).f().len())
                    && (final(self).buf_pos.pos.1 < final(self).b().len() || final(self).base() + final(self).b().len() == final(self).f().len())),
            [C02,C04,C20|fastq.resume.end_is_final] r matches Ok(false) ==> final(self).state == State::Finished,
            [C02,C03,C04|fastq.resume.end] r matches Ok(false) ==> final(self).buf_reader.errs() == old(self).buf_reader.errs()
                && (final(self).clean() ==> end_ok(final(self).f(), final(self).gpos())),
            [C14|fastq.resume.err_io] r matches Err(e) ==> (e matches Error::Io(x) ==> final(self).buf_reader.errs() == old(self).buf_reader.errs().push(x)),
            [C09|fastq.resume.err_limit] r matches Err(e) ==> (e is BufferLimit ==> final(self).buf_reader.errs() == old(self).buf_reader.errs()),
            [C02,C03,C04,C17|fastq.resume.err_format] r matches Err(e) ==> (fmt_variant(e) ==> final(self).buf_reader.errs() == old(self).buf_reader.errs()
                     && (final(self).clean() ==> fmt_err(e, final(self).f(), final(self).gpos(), final(self).position.line as int))),
            [C02,C03,C06,C17|fastq.resume.err_terminal] r is Err ==> final(self).state == State::Finished,
            [C02,C03,C04|fastq.resume.no_compaction_when_told] !make_room ==> final(self).base() == old(self).base()
                && final(self).buf_pos.pos.0 == old(self).buf_pos.pos.0
                && old(self).b().len() <= final(self).b().len() && final(self).b().subrange(0, old(self).b().len() as int) == old(self).b(),
            [C09|fastq.resume.capacity_monotone] final(self).buf_reader.cap() >= old(self).buf_reader.cap(),
            [C03,C09|fastq.resume.growth_only_when_record_does_not_fit] make_room && final(self).buf_reader.cap() > old(self).buf_reader.cap() ==>
                c4(final(self).f(), final(self).gpos()) - final(self).gpos() >= old(self).buf_reader.cap(),
//@body_start
        proof { lemma_count_lf_mono(self.f(), 0, self.position.byte as int); }
//@loop 0 kw=loop
            invariant
                [C02,C03,C04,C05,C06|fastq.resume.inv.frame] self.wf0() && self.filled() && self.f() == old(self).f() && self.gpos() == old(self).gpos()
                    && self.position == old(self).position && self.coords() && self.position.line + 4 <= u64::MAX,
                [C02,C03,C04,C17|fastq.resume.inv.stuck] stuck(self.b(), self.buf_pos, rp(incomplete_pos)),
                [C14|fastq.resume.inv.errs] self.buf_reader.errs() == old(self).buf_reader.errs(),
                [C02,C03,C04,C05,C06|fastq.resume.inv.state] self.state == old(self).state,
                [C02,C03,C04|fastq.resume.inv.no_compaction] !make_room ==> self.base() == old(self).base() && self.buf_pos.pos.0 == old(self).buf_pos.pos.0
                    && old(self).b().len() <= self.b().len() && self.b().subrange(0, old(self).b().len() as int) == old(self).b(),
                [C09|fastq.resume.inv.capacity] self.buf_reader.cap() >= old(self).buf_reader.cap()
                    && (make_room && self.buf_reader.cap() > old(self).buf_reader.cap() ==>
                        c4(self.f(), self.gpos()) - self.gpos() >= old(self).buf_reader.cap()),
            decreases
                (if self.base() + self.b().len() <= self.f().len() { self.f().len() - self.base() - self.b().len() } else { 0 }),
                (if self.b().len() < self.buf_reader.cap() { 0int } else { 1int }),
//@at depth=3 kw=return nth=0 expect="return self\.\w+\(" call=check_end unique=1
                proof {
                    // the buffer is not full although it was filled: it holds the end of the input
                    let (ff, a, bb, s) = (self.f(), self.base(), self.b(), self.buf_pos.pos.0 as int);
                    lemma_stuck_facts(bb, self.buf_pos, rp(incomplete_pos));
                    lemma_chain_bounds(bb, s);
                    if bb.len() > 0 && self.clean() {
                        if rp(incomplete_pos) == 3 { lemma_group_lift(ff, a, bb, s); } else { lemma_tail_lift(ff, a, bb, s); }
                    }
                }
//@at depth=3 kw=if nth=0 expect="if let Err\(\w+\) = " call=grow
                proof {
                    if self.b().len() > 0 { lemma_stuck_beyond(self.f(), self.base(), self.b(), self.buf_pos, rp(incomplete_pos)); }
                }
//@at depth=2 kw=if nth=1 expect="if let Err\(\w+\) = " call=fill_buf
            let ghost b_before = self.b();
//@at depth=2 kw=if nth=2 expect="if let Some\(\w+\) = " call=search_incomplete unique=1
            proof {
                lemma_stuck_facts(b_before, self.buf_pos, rp(incomplete_pos));
                lemma_chain_prefix(b_before, self.b(), self.buf_pos, rp(incomplete_pos));
                let (ff, a, bb, s) = (self.f(), self.base(), self.b(), self.buf_pos.pos.0 as int);
                lemma_chain_bounds(bb, s);
                if c4(bb, s) < bb.len() { lemma_group_lift(ff, a, bb, s); }
            }
//@end

//@fn fastq::Reader::policy ret=r tags=C09
//@spec
        ensures
            [C09|fastq.policy.is_field] *r == self.buf_policy,
//@end

//@fn fastq::Reader::set_policy ret=r tags=C09
//@spec
        requires
            self.wf(), policy.policy_ok(),
        ensures
            [C09|fastq.set_policy.keeps_stream] r.wf() && r.buf_reader == self.buf_reader && r.buf_pos == self.buf_pos && r.position == self.position
                && r.incomplete_pos == self.incomplete_pos && r.state == self.state && r.buf_policy == policy
                && r.cursor() == self.cursor() && r.f() == self.f(),
//@end

//@fn fastq::Reader::next ret=r tags=C02,C03,C05,C06,C09,C14,C17
//@spec
        requires
            old(self).wf(),
        ensures
            [C02,C03,C04,C05,C06|fastq.next.wf] final(self).wf() && final(self).f() == old(self).f(),
            [C02,C04,C20|fastq.next.end_is_final] r is None ==> final(self).state == State::Finished,
            [C02,C03,C04,C06|fastq.next.end] r is None ==> final(self).buf_reader.errs() == old(self).buf_reader.errs()
                && (old(self).state == State::Finished || old(self).poisoned() || !old(self).clean() || end_ok(old(self).f(), old(self).cursor())),
            [C02,C04,C20|fastq.next.end_is_sticky] old(self).state == State::Finished ==> r is None,
            [C09|fastq.next.capacity_monotone] final(self).buf_reader.cap() >= old(self).buf_reader.cap(),
            [C03,C09|fastq.next.growth_only_when_record_does_not_fit] old(self).clean() && !old(self).poisoned() && final(self).buf_reader.cap() > old(self).buf_reader.cap() ==>
                nofit(old(self).f(), old(self).cursor(), old(self).buf_reader.cap() as int),
            [C14|fastq.next.source_errors_are_not_swallowed] (r is None || r matches Some(Ok(_))) ==> final(self).buf_reader.errs() == old(self).buf_reader.errs(),
            [C02,C03,C04,C06,C12|fastq.next.record] r matches Some(Ok(rec)) ==> final(self).buf_reader.errs() == old(self).buf_reader.errs()
                && old(self).state != State::Finished
                && rec.buffer@ == final(self).b() && *rec.buf_pos == final(self).buf_pos && rec.buf_pos.valid(rec.buffer@)
                && (final(self).state == State::Parsing || final(self).state == State::Finished)
                && (!old(self).poisoned() && old(self).clean() ==> ({
                    let (ff, p) = (old(self).f(), old(self).cursor());
                    &&& group_complete(ff, p) && vok(ff, p)
                    &&& rec.head_v() == g_head(ff, p) && rec.seq_v() == g_seq(ff, p) && rec.qual_v() == g_qual(ff, p)
                    &&& final(self).gpos() == p
                    &&& final(self).base() + final(self).buf_pos.pos.1 == c4(ff, p)
                    &&& (final(self).state == State::Finished ==> c4(ff, p) == ff.len())
                })),
            [C03,C05|fastq.next.position] r matches Some(Ok(rec)) && !old(self).poisoned() && old(self).clean() ==>
                final(self).position.byte == old(self).cursor() && final(self).position.line == true_line(old(self).f(), old(self).cursor()),
            [C02,C03,C06,C14,C17|fastq.next.error] r matches Some(Err(e)) ==>
                (final(self).state == State::Finished || (old(self).state == State::New && final(self).state == State::New && e is Io))
                && match e {
                    Error::Io(x) => final(self).buf_reader.errs() == old(self).buf_reader.errs().push(x),
                    Error::BufferLimit => final(self).buf_reader.errs() == old(self).buf_reader.errs(),
                    _ => final(self).buf_reader.errs() == old(self).buf_reader.errs() && old(self).state != State::Finished
                         && (!old(self).poisoned() && old(self).clean() ==> fmt_err(e, old(self).f(), old(self).cursor(), true_line(old(self).f(), old(self).cursor()))),
                },
//@body_start
        proof {
            lemma_count_lf_mono(self.f(), 0, self.position.byte as int);
            if self.state == State::Parsing {
                lemma_advance(self.f(), self.base(), self.b(), self.buf_pos);
            }
        }
//@at depth=1 kw=if nth=0 expect="if "
        proof {
            assert(self.ready(old(self)));
            let (ff, a, bb, s) = (self.f(), self.base(), self.b(), self.buf_pos.pos.0 as int);
            lemma_chain_bounds(bb, s);
            if bb.len() > 0 && c4(bb, s) < bb.len() { lemma_group_lift(ff, a, bb, s); }
        }
//@at tail expect="(return )?Some\(Ok\("
        proof {
            let (ff, a, bb, s) = (self.f(), self.base(), self.b(), self.buf_pos.pos.0 as int);
            lemma_complete_facts(bb, self.buf_pos);
            lemma_nl_bounds(bb, s);
            if self.clean() { lemma_group_lift(ff, a, bb, s); }
        }
//@end

//@fn fastq::Reader::position ret=r tags=C05
//@spec
        ensures
            [C05|fastq.position.is_field] *r == self.position,
//@end
}

//@impl_open fastq::Reader::seek
//@fn fastq::Reader::seek ret=r tags=C05,C06,C14
//@spec
        requires
            old(self).wf(),
            to.byte <= old(self).f().len(),
            to.line == true_line(old(self).f(), to.byte as int),
        ensures
            [C02,C03,C04,C05,C06|fastq.seek.frame] final(self).f() == old(self).f() && final(self).buf_policy == old(self).buf_policy,
            [C03,C04,C05,C06|fastq.seek.positioned] r is Ok ==> final(self).wf() && final(self).state == State::Positioned && final(self).incomplete_pos is None
                && final(self).position == *to && final(self).gpos() == to.byte && final(self).cursor() == to.byte,
            [C03,C04,C05,C06,C14|fastq.seek.ok_no_error_raised] r is Ok ==> final(self).buf_reader.errs() == old(self).buf_reader.errs(),
            [C09|fastq.seek.capacity] final(self).buf_reader.cap() == old(self).buf_reader.cap(),
            [C02,C03,C14,C17|fastq.seek.err] r matches Err(e) ==> (e matches Error::Io(x) && final(self).buf_reader.errs() == old(self).buf_reader.errs().push(x)),
//@end
}

//@impl_open fastq::Reader::with_capacity
//@fn fastq::Reader::with_capacity ret=r tags=C02,C06,C09
//@spec
        requires
            3 <= capacity <= isize::MAX,
        ensures
            [C02,C03,C04,C05,C06|fastq.with_capacity.fresh] r.wf() && r.state == State::New && r.b().len() == 0 && r.clean() && r.cursor() == 0
                && r.position.line == 1 && r.position.byte == 0,
            [C09|fastq.with_capacity.capacity] r.buf_reader.cap() >= capacity,
//@end
//@fn fastq::Reader::new ret=r tags=C02,C06,C09
//@spec
        ensures
            [C02,C03,C04,C05,C06|fastq.new.fresh] r.wf() && r.state == State::New && r.b().len() == 0 && r.clean() && r.cursor() == 0
                && r.position.line == 1 && r.position.byte == 0,
            [C09|fastq.new.capacity] r.buf_reader.cap() >= BUFSIZE,
//@end
}

//@impl_open fastq::Position::new
//@fn fastq::Position::new ret=r tags=C05
//@spec
        ensures
            [C05|fastq.Position.new] r.line == line && r.byte == byte,
//@end
//@fn fastq::Position::line ret=r tags=C05
//@spec
        ensures
            [C05|fastq.Position.line] r == self.line,
//@end
//@fn fastq::Position::byte ret=r tags=C05
//@spec
        ensures
            [C05|fastq.Position.byte] r == self.byte,
//@end
}


    /// `@ head LF seq LF + LF qual LF`
    pub open spec fn fq_render(h: Seq<u8>, sq: Seq<u8>, q: Seq<u8>) -> Seq<u8> {
        seq![64u8] + h + seq![10u8] + sq + seq![10u8, 43u8, 10u8] + q + seq![10u8]
    }

//@impl_open fastq::Record::head
    /// offsets are those of a complete, validated record (always true for owned records)
    spec fn rwf(&self) -> bool;
    spec fn head_s(&self) -> Seq<u8>;
    spec fn seq_s(&self) -> Seq<u8>;
    spec fn qual_s(&self) -> Seq<u8>;
//@sig fastq::Record::head ret=r tags=C13
//@spec
        requires self.rwf(),
        ensures
            [C12,C13|fastq.Record.head] r@ == self.head_s(),
//@end
//@sig fastq::Record::seq ret=r tags=C13
//@spec
        requires self.rwf(),
        ensures
            [C12,C13|fastq.Record.seq] r@ == self.seq_s(),
//@end
//@sig fastq::Record::qual ret=r tags=C13
//@spec
        requires self.rwf(),
        ensures
            [C12,C13|fastq.Record.qual] r@ == self.qual_s(),
//@end

}

impl<'a> RefRecord<'a> {
    spec fn head_v(&self) -> Seq<u8> { g_head(self.buffer@, self.buf_pos.pos.0 as int) }
    spec fn seq_v(&self) -> Seq<u8> { g_seq(self.buffer@, self.buf_pos.pos.0 as int) }
    spec fn qual_v(&self) -> Seq<u8> { g_qual(self.buffer@, self.buf_pos.pos.0 as int) }
    /// the record's bytes in the buffer, from '@' up to (not including) the last line's LF
    spec fn raw_v(&self) -> Seq<u8> { self.buffer@.subrange(self.buf_pos.pos.0 as int, self.buf_pos.pos.1 as int) }
}

//@impl_open fastq::Record for RefRecord::head
    spec fn rwf(&self) -> bool { self.buf_pos.valid(self.buffer@) }
    spec fn head_s(&self) -> Seq<u8> { self.head_v() }
    spec fn seq_s(&self) -> Seq<u8> { self.seq_v() }
    spec fn qual_s(&self) -> Seq<u8> { self.qual_v() }
//@fn fastq::Record for RefRecord::head ret=r tags=C13,C12,C06
//@body_start
        proof { reveal(chain_body); lemma_chain_bounds(self.buffer@, self.buf_pos.pos.0 as int); lemma_nl_bounds(self.buffer@, self.buf_pos.pos.0 as int); }
//@end
//@fn fastq::Record for RefRecord::seq ret=r tags=C13,C12,C06
//@body_start
        proof { reveal(chain_body); lemma_chain_bounds(self.buffer@, self.buf_pos.pos.0 as int); }
//@end
//@fn fastq::Record for RefRecord::qual ret=r tags=C13,C12,C06
//@body_start
        proof { reveal(chain_body); lemma_chain_bounds(self.buffer@, self.buf_pos.pos.0 as int); }
//@end
}

//@item fastq::OwnedRecord vis=keep

//@impl_open fastq::Record for OwnedRecord::head
    spec fn rwf(&self) -> bool { true }
    spec fn head_s(&self) -> Seq<u8> { self.head@ }
    spec fn seq_s(&self) -> Seq<u8> { self.seq@ }
    spec fn qual_s(&self) -> Seq<u8> { self.qual@ }
//@fn fastq::Record for OwnedRecord::head ret=r tags=C13
//@end
//@fn fastq::Record for OwnedRecord::seq ret=r tags=C13
//@end
//@fn fastq::Record for OwnedRecord::qual ret=r tags=C13
//@end
}

    /// Shadow of `trait Record` without implementors: Verus fails to use closure specifications inside default
    /// methods of a trait that has impls in the same crate (tool quirk, found by bisection); the default methods
    /// are therefore verified here, for an arbitrary implementor of the required methods' contracts.
trait RecordD {
    spec fn rwf(&self) -> bool;
    spec fn head_s(&self) -> Seq<u8>;
    spec fn seq_s(&self) -> Seq<u8>;
    spec fn qual_s(&self) -> Seq<u8>;
//@sig fastq::Record::head ret=r tags=C13 as=fastq::RecordD::head
//@spec
        requires self.rwf(),
        ensures
            r@ == self.head_s(),
//@end
//@sig fastq::Record::seq ret=r tags=C13 as=fastq::RecordD::seq
//@spec
        requires self.rwf(),
        ensures
            r@ == self.seq_s(),
//@end
//@sig fastq::Record::qual ret=r tags=C13 as=fastq::RecordD::qual
//@spec
        requires self.rwf(),
        ensures
            r@ == self.qual_s(),
//@end

//@fn fastq::Record::id_bytes ret=r tags=C13,C06
//@spec
        requires self.rwf(),
        ensures
            [C13|fastq.Record.id_bytes] r@ == id_of(self.head_s()),
//@body_start
        broadcast use lemma_split_cut, lemma_split_cut2;
//@closure 0 params="b: &u8" ret="(r: bool)"
            ensures r == (*b == 32u8)
//@end

//@fn fastq::Record::id ret=r tags=C13
//@spec
        requires self.rwf(),
        ensures
            [C13|fastq.Record.id] (r is Ok <==> valid_utf8(id_of(self.head_s()))) && (r matches Ok(t) ==> str_bytes(t) == id_of(self.head_s())),
//@end

//@fn fastq::Record::desc_bytes ret=r tags=C13,C06
//@spec
        requires self.rwf(),
        ensures
            [C13|fastq.Record.desc_bytes] (r matches Some(d) ==> desc_of(self.head_s()) == Some(d@)) && (r is None ==> desc_of(self.head_s()) is None),
//@body_start
        broadcast use lemma_split_cut, lemma_split_cut2;
//@closure 0 params="b: &u8" ret="(r: bool)"
            ensures r == (*b == 32u8)
//@end

//@fn fastq::Record::desc ret=r tags=C13
//@spec
        requires self.rwf(),
        ensures
            [C13|fastq.Record.desc] (r is None <==> desc_of(self.head_s()) is None)
                && (r matches Some(x) ==> (x is Ok <==> valid_utf8(desc_of(self.head_s()).unwrap())) && (x matches Ok(t) ==> str_bytes(t) == desc_of(self.head_s()).unwrap())),
//@end

//@fn fastq::Record::id_desc ret=r tags=C13,C06
//@spec
        requires self.rwf(),
        ensures
            [C13|fastq.Record.id_desc.ok_iff_header_utf8] r is Ok <==> valid_utf8(self.head_s()),
            [C13|fastq.Record.id_desc] r matches Ok(p) ==> str_bytes(p.0) == id_of(self.head_s())
                && (p.1 matches Some(d) ==> desc_of(self.head_s()) == Some(str_bytes(d))) && (p.1 is None ==> desc_of(self.head_s()) is None),
//@end

//@fn fastq::Record::id_desc_bytes ret=r tags=C13,C06
//@spec
        requires self.rwf(),
        ensures
            [C13|fastq.Record.id_desc_bytes] r.0@ == id_of(self.head_s())
                && (r.1 matches Some(d) ==> desc_of(self.head_s()) == Some(d@)) && (r.1 is None ==> desc_of(self.head_s()) is None),
//@body_start
        broadcast use lemma_split_cut, lemma_split_cut2;
//@closure 0 params="c: &u8" ret="(r: bool)"
            ensures r == (*c == 32u8)
//@end

//@fn fastq::Record::write ret=r tags=C11
//@spec
        requires self.rwf(),
        ensures
            [C11|fastq.Record.write] r is Ok ==> writer.fin() == writer.written() + fq_render(self.head_s(), self.seq_s(), self.qual_s()),
//@end
}

//@impl_open fastq::RefRecord::to_owned_record
//@fn fastq::RefRecord::to_owned_record ret=r tags=C13,C04
//@spec
        requires self.rwf(),
        ensures
            [C02,C04,C12,C13|fastq.to_owned_record] r.head@ == self.head_v() && r.seq@ == self.seq_v() && r.qual@ == self.qual_v(),
//@end

//@fn fastq::RefRecord::write_unchanged ret=r tags=C11
//@local data ord=0 kind=let
//@spec
        requires self.rwf(),
        ensures
            [C11|fastq.write_unchanged] r is Ok ==> writer.fin() == writer.written() + self.raw_v() + seq![10u8],
//@body_start
        broadcast use io::resolve_law_b;
        proof { reveal(chain_body); lemma_chain_bounds(self.buffer@, self.buf_pos.pos.0 as int); }
//@end
}

//@fn fastq::write_to ret=r tags=C11
//@spec
        ensures
            [C11|fastq.write_to] r is Ok ==> writer.fin() == writer.written() + fq_render(head@, seq@, qual@),
//@body_start
        broadcast use io::resolve_law_b;
//@end

//@fn fastq::write_parts ret=r tags=C11
//@spec
        ensures
            [C11|fastq.write_parts] r is Ok ==> writer.fin() == writer.written()
            + fq_render(match desc { Some(d) => id@ + seq![32u8] + d@, None => id@ }, seq@, qual@),
//@body_start
        broadcast use io::resolve_law_b;
//@end

    // =============================================================================================
    // record sets
    // =============================================================================================
//@item fastq::RecordSet attrs="#[derive(Default)]"
    impl RecordSet {
        /// every stored position describes a complete, validated record of the set's own buffer
        spec fn wf(&self) -> bool {
            forall|i: int| 0 <= i < self.buf_positions@.len() ==> (#[trigger] self.buf_positions@[i]).valid(self.buffer@)
        }
        /// number of records / i-th record as (head, seq, qual)
        spec fn n(&self) -> int { self.buf_positions@.len() as int }
        spec fn rec(&self, i: int) -> (Seq<u8>, Seq<u8>, Seq<u8>) { recv(self.buf_positions@[i], self.buffer@) }
    }

//@impl_open fastq::RecordSet::len
//@fn fastq::RecordSet::len ret=r tags=C04,C20
//@spec
        ensures
            [C04,C20|fastq.RecordSet.len] r == self.n(),
//@end
//@fn fastq::RecordSet::is_empty ret=r tags=C04
//@spec
        ensures
            [C04|fastq.RecordSet.is_empty] r == (self.n() == 0),
//@end
//@fn fastq::RecordSet::shrink_buffer_to_fit tags=C04,C06
//@spec
        requires old(self).wf(),
        ensures
            [C04,C06|fastq.RecordSet.shrink_keeps_the_set] final(self).wf() && final(self).buffer@ == old(self).buffer@ && final(self).buf_positions == old(self).buf_positions
                && final(self).n() == old(self).n(),
//@end
}

//@item fastq::RecordSetIter
    impl<'a> RecordSetIter<'a> {
        /// positions still to be handed out
        #[verifier::prophetic]
        spec fn rem(&self) -> Seq<&'a BufferPosition> { self.pos.remaining() }
        #[verifier::prophetic]
        spec fn iwf(&self) -> bool {
            self.pos.obeys_prophetic_iter_laws()
            && forall|i: int| 0 <= i < self.rem().len() ==> (#[trigger] self.rem()[i]).valid(self.buffer@)
        }
    }

//@impl_open fastq::IntoIterator for &RecordSet::into_iter
//@item fastq::IntoIterator for &RecordSet::Item
//@item fastq::IntoIterator for &RecordSet::IntoIter
    spec fn ii_pre(self) -> bool { self.wf() }
//@fn fastq::IntoIterator for &RecordSet::into_iter ret=r tags=C04,C20,C13
//@spec
        ensures
            [C04,C20|fastq.RecordSet.into_iter] r.iwf() && r.buffer@ == self.buffer@ && r.rem().len() == self.n()
                && forall|i: int| 0 <= i < self.n() ==> *(#[trigger] r.rem()[i]) == self.buf_positions@[i],
//@end
}

//@impl_open fastq::Iterator for RecordSetIter::next
//@item fastq::Iterator for RecordSetIter::Item
    #[verifier::prophetic]
    spec fn it_pre(&self) -> bool { self.iwf() }
//@fn fastq::Iterator for RecordSetIter::next ret=r tags=C04,C20,C06
//@spec
        ensures
            [C04,C20|fastq.RecordSetIter.next.some] old(self).rem().len() > 0 ==> (r matches Some(rec) && rec.buf_pos == old(self).rem()[0] && rec.buffer@ == old(self).buffer@
                && rec.rwf() && final(self).rem() == old(self).rem().drop_first()),
            [C20|fastq.RecordSetIter.next.none_is_sticky] old(self).rem().len() == 0 ==> r is None && final(self).rem().len() == 0,
            [C06,C20|fastq.RecordSetIter.next.frame] final(self).iwf() && final(self).buffer == old(self).buffer,
//@end
}

//@impl_open fastq::Reader::read_record_set_exact
    /// loop invariant of read_record_set_exact, in three parts (k = number of positions collected so far, o = reader at entry)
    spec fn rs_a(&self, o: &Self, rset: &RecordSet, is_new: bool, n_records: Option<usize>) -> bool {
        let k = rset.n();
        &&& self.wf0() && self.filled() && self.f() == o.f() && self.buf_reader.errs() == o.buf_reader.errs()
        &&& (self.state == State::Positioned || self.state == State::Finished)
        &&& self.position.byte == self.gpos() && self.buf_pos.pos.0 <= self.b().len() + 1 && self.position.byte <= self.f().len() + 1
        &&& (self.state == State::Positioned ==> self.buf_pos.pos.0 <= self.b().len() && self.coords()
                && (self.incomplete_pos matches Some(j) ==> stuck(self.b(), self.buf_pos, rp(j))))
        &&& (n_records matches Some(m) ==> k <= m)
        &&& (self.state == State::Finished ==> k >= 1)
    }
    spec fn rs_b(&self, rset: &RecordSet) -> bool { ps_valid(rset.buf_positions@, self.b(), self.state == State::Finished) }
    spec fn rs_c(&self, o: &Self, rset: &RecordSet) -> bool {
        let k = rset.n();
        let p0 = o.cursor();
        o.clean() && !o.poisoned() ==> {
                &&& run_ok(self.f(), p0, k)
                &&& ps_lifted(rset.buf_positions@, self.b(), self.f(), p0)
                &&& (self.state == State::Positioned ==> self.gpos() == gstart(self.f(), p0, k))
                &&& (self.state == State::Finished ==> end_ok(self.f(), gstart(self.f(), p0, k)))
            }
    }

//@fn fastq::Reader::read_record_set_exact ret=r tags=C04,C03,C05,C06,C09,C14
//@local is_new ord=0 kind=letmut
//@spec
        requires
            old(self).wf(), old(rset).wf(),
            n_records != Some(0usize),
        ensures
            [C03,C04,C05,C06|fastq.read_set.wf] final(self).wf() && final(self).f() == old(self).f() && final(rset).wf(),
            [C03,C04|fastq.read_set.ok] r matches Some(Ok(_)) ==> final(rset).n() >= 1 && final(self).buf_reader.errs() == old(self).buf_reader.errs()
                && old(self).state != State::Finished
                && (n_records matches Some(m) ==> final(rset).n() <= m)
                && (old(self).clean() && !old(self).poisoned() ==> ({
                    let (ff, p0, k) = (old(self).f(), old(self).cursor(), final(rset).n());
                    &&& run_ok(ff, p0, k)
                    &&& forall|i: int| 0 <= i < k ==> #[trigger] final(rset).rec(i) == (g_head(ff, gstart(ff, p0, i)), g_seq(ff, gstart(ff, p0, i)), g_qual(ff, gstart(ff, p0, i)))
                    &&& (final(self).state != State::Finished ==> final(self).cursor() == gstart(ff, p0, k))
                    &&& (final(self).state == State::Finished ==> end_ok(ff, gstart(ff, p0, k)))
                    &&& (n_records matches Some(m) ==> k == m || final(self).state == State::Finished)
                })),
            [C03,C05|fastq.read_set.position] r matches Some(Ok(_)) && old(self).clean() && !old(self).poisoned() && final(self).state != State::Finished ==>
                final(self).position.byte == gstart(old(self).f(), old(self).cursor(), final(rset).n())
                && final(self).position.line == true_line(old(self).f(), final(self).position.byte as int),
            [C14|fastq.read_set.source_errors_are_not_swallowed] (r is None || r matches Some(Ok(_))) ==> final(self).buf_reader.errs() == old(self).buf_reader.errs(),
            [C09|fastq.read_set.capacity_monotone] final(self).buf_reader.cap() >= old(self).buf_reader.cap(),
            [C03,C09|fastq.read_set.plain_sets_grow_only_when_a_record_does_not_fit] n_records is None && old(self).clean() && !old(self).poisoned()
                && final(self).buf_reader.cap() > old(self).buf_reader.cap() ==>
                exists|j: int| 0 <= j && #[trigger] nofit(old(self).f(), gstart(old(self).f(), old(self).cursor(), j), old(self).buf_reader.cap() as int),
            [C03,C04,C06|fastq.read_set.none] r is None ==> final(self).buf_reader.errs() == old(self).buf_reader.errs() && final(self).state == State::Finished
                && (old(self).state == State::Finished || old(self).poisoned() || !old(self).clean() || end_ok(old(self).f(), old(self).cursor())),
            [C03,C06,C17|fastq.read_set.err_terminal] r matches Some(Err(e)) ==>
                (final(self).state == State::Finished || (old(self).state == State::New && final(self).state == State::New && e is Io)),
            [C14|fastq.read_set.err_io] r matches Some(Err(e)) ==> (match e {
                    Error::Io(x) => final(self).buf_reader.errs() == old(self).buf_reader.errs().push(x),
                    _ => final(self).buf_reader.errs() == old(self).buf_reader.errs() }),
            [C03,C04,C17|fastq.read_set.err_format] r matches Some(Err(e)) ==> (fmt_variant(e) ==> old(self).state != State::Finished
                && (!old(self).poisoned() && old(self).clean() ==> exists|j: int| 0 <= j && run_ok(old(self).f(), old(self).cursor(), j)
                    && #[trigger] fmt_err(e, old(self).f(), gstart(old(self).f(), old(self).cursor(), j), true_line(old(self).f(), gstart(old(self).f(), old(self).cursor(), j))))),
//@body_start
        proof {
            lemma_count_lf_mono(self.f(), 0, self.position.byte as int);
            if self.state == State::Parsing { lemma_advance(self.f(), self.base(), self.b(), self.buf_pos); }
        }
//@at depth=1 kw=let nth=0 expect="let mut \w+ = \w+;" unique=1
        let ghost mut grow_at: int = -1;
        proof { lemma_ps_empty(self.b(), self.f(), old(self).cursor(), self.state == State::Finished); assert(rset.buf_positions@ =~= Seq::<BufferPosition>::empty()); }
//@loop 0 kw=while
            invariant_except_break
                [C04|fastq.read_set.inv.below_requested_count] n_records matches Some(m) ==> rset.n() < m,
                [C04,C06|fastq.read_set.inv.no_compaction_once_a_record_is_held] self.state != State::Finished && self.incomplete_pos is Some && rset.n() > 0 ==> !is_new,
            invariant
                [C14|fastq.read_set.inv.no_source_error_so_far] self.buf_reader.errs() == old(self).buf_reader.errs(),
                [C03,C04,C05,C06|fastq.read_set.inv.state] self.rs_a(old(self), rset, is_new, n_records),
                [C03,C04,C05,C06|fastq.read_set.inv.positions_valid] self.rs_b(rset),
                [C03,C04|fastq.read_set.inv.records_are_the_next_k] self.rs_c(old(self), rset),
                n_records != Some(0usize), old(self).state != State::Finished,
                [C09|fastq.read_set.inv.capacity] self.buf_reader.cap() >= old(self).buf_reader.cap() && (n_records is None ==> is_new)
                    && (n_records is None && old(self).clean() && !old(self).poisoned() && self.buf_reader.cap() > old(self).buf_reader.cap() ==>
                        0 <= grow_at && nofit(old(self).f(), gstart(old(self).f(), old(self).cursor(), grow_at), old(self).buf_reader.cap() as int)),
            ensures
                [C03,C04|fastq.read_set.loop_exit_nonempty] rset.n() >= 1,
                [C03,C04|fastq.read_set.loop_exit_exact_or_end] n_records matches Some(m) ==> rset.n() == m || self.state == State::Finished,
            decreases
                self.f().len() + 2 - self.gpos(),
                (if self.incomplete_pos is Some { 0int } else { 1int }),
//@at depth=2 kw=if nth=0 expect="if let Some\(\w+\) = "
            let ghost b0 = self.b();
            let ghost k0 = rset.n();
            let ghost cap_before = self.buf_reader.cap();
            proof {
                lemma_count_lf_mono(self.f(), 0, self.position.byte as int);
                let (ff, a, bb, s) = (self.f(), self.base(), self.b(), self.buf_pos.pos.0 as int);
                lemma_chain_bounds(bb, s);
                if bb.len() > 0 && c4(bb, s) < bb.len() && self.clean() { lemma_group_lift(ff, a, bb, s); }
            }
//@after /Err\(e\) => \{/ nth=0 optional=1
                        proof {
                            if self.buf_reader.cap() > cap_before {
                                grow_at = k0;
                                if n_records is None && old(self).clean() && !old(self).poisoned() {
                                    assert(nofit(old(self).f(), gstart(old(self).f(), old(self).cursor(), k0), old(self).buf_reader.cap() as int));
                                }
                            }
                            let (ff, p0) = (old(self).f(), old(self).cursor());
                            if old(self).clean() && !old(self).poisoned() && fmt_variant(e) {
                                assert(run_ok(ff, p0, k0) && fmt_err(e, ff, gstart(ff, p0, k0), true_line(ff, gstart(ff, p0, k0))));
                            }
                        }
//@at depth=3 kw=let nth=0 expect="let \w+ = match self\.search\(\)" call=search unique=1
                proof {
                    // whatever format error search() reports for the group in the buffer is the error of the k0-th group of the file
                    let (ff, p0) = (old(self).f(), old(self).cursor());
                    let (bb, s, ln) = (self.b(), self.buf_pos.pos.0 as int, self.position.line as int);
                    if old(self).clean() && !old(self).poisoned() {
                        assert forall|e2: Error| #[trigger] verr(e2, bb, s, ln) && c4(bb, s) < bb.len() implies
                            run_ok(ff, p0, k0) && fmt_err(e2, ff, gstart(ff, p0, k0), true_line(ff, gstart(ff, p0, k0))) by {
                            lemma_chain_bounds(bb, s);
                            lemma_group_lift(ff, self.base(), bb, s);
                        }
                    }
                }
//@after /Ok\(true\) => \{/
                        proof { if self.buf_reader.cap() > cap_before {
                                grow_at = k0;
                                if n_records is None && old(self).clean() && !old(self).poisoned() {
                                    assert(nofit(old(self).f(), gstart(old(self).f(), old(self).cursor(), k0), old(self).buf_reader.cap() as int));
                                }
                            } }
//@after /Ok\(false\) => \{/
                        proof {
                            if self.buf_reader.cap() > cap_before {
                                grow_at = k0;
                                if n_records is None && old(self).clean() && !old(self).poisoned() {
                                    assert(nofit(old(self).f(), gstart(old(self).f(), old(self).cursor(), k0), old(self).buf_reader.cap() as int));
                                }
                            }
                        }
//@at depth=5 kw=break nth=0
                        proof {
                            lemma_ps_prefix(rset.buf_positions@, b0, self.b(), self.f(), old(self).cursor());
                            reveal(ps_valid);
                        }
//@at depth=2 kw=rset nth=0 expect="rset\.\w+\.push\(" unique=1
            proof {
                if k0 > 0 {
                    assert(self.b().subrange(0, b0.len() as int) =~= b0);
                    lemma_ps_prefix(rset.buf_positions@, b0, self.b(), self.f(), old(self).cursor());
                } else {
                    lemma_ps_empty(self.b(), self.f(), old(self).cursor(), false);
                    assert(rset.buf_positions@ =~= Seq::<BufferPosition>::empty());
                }
                lemma_complete_facts(self.b(), self.buf_pos);
                lemma_ps_push(rset.buf_positions@, self.buf_pos, self.b(), self.base(), self.f(), old(self).cursor(),
                              self.state == State::Finished, old(self).clean() && !old(self).poisoned());
                if self.buf_pos.pos.1 < self.b().len() { lemma_advance(self.f(), self.base(), self.b(), self.buf_pos); }
            }
//@at depth=1 kw=rset nth=1 expect="rset\.\w+\.clear\(\);"
        proof { broadcast use axiom_ref_items_slice; reveal(ps_valid); reveal(ps_lifted); }
//@at tail expect="(return )?Some\(Ok\("
        proof { assert(rset.buffer@ =~= self.b()); }
//@end

//@fn fastq::Reader::read_record_set ret=r tags=C04,C09
//@spec
        requires
            old(self).wf(), old(rset).wf(),
        ensures
            [C03,C04|fastq.read_record_set.is_exact_none] final(self).wf() && final(rset).wf() && final(self).f() == old(self).f()
                && (r matches Some(Ok(_)) ==> final(rset).n() >= 1),
//@end
}

//@item fastq::RecordsIter
//@impl_open fastq::Iterator for RecordsIter::next inherent=1
//@fn fastq::Iterator for RecordsIter::next ret=r tags=C20,C04,C13
//@spec
        requires
            old(self).rdr.wf(),
        ensures
            [C04,C06,C20|fastq.RecordsIter.next.wf] final(self).rdr.wf() && final(self).rdr.f() == old(self).rdr.f(),
            [C20|fastq.RecordsIter.next.end_is_sticky] old(self).rdr.state == State::Finished ==> r is None && final(self).rdr.state == State::Finished,
            [C04,C20|fastq.RecordsIter.next.end] r is None ==> final(self).rdr.state == State::Finished
                && (old(self).rdr.state == State::Finished || old(self).rdr.poisoned() || !old(self).rdr.clean() || end_ok(old(self).rdr.f(), old(self).rdr.cursor())),
            [C02,C04,C13|fastq.RecordsIter.next.record] r matches Some(Ok(o)) ==> (!old(self).rdr.poisoned() && old(self).rdr.clean() ==> ({
                    let (ff, p) = (old(self).rdr.f(), old(self).rdr.cursor());
                    &&& group_complete(ff, p) && vok(ff, p)
                    &&& o.head@ == g_head(ff, p) && o.seq@ == g_seq(ff, p) && o.qual@ == g_qual(ff, p)
                    &&& final(self).rdr.cursor() == c4(ff, p) + 1 || final(self).rdr.state == State::Finished
                })),
//@closure 0 params="rec: Result<RefRecord, Error>" ret="(q: Result<OwnedRecord, Error>)"
            requires rec matches Ok(x) ==> x.rwf()
            ensures (rec matches Ok(x) ==> q matches Ok(o) && o.head@ == x.head_v() && o.seq@ == x.seq_v() && o.qual@ == x.qual_v()),
                (rec matches Err(e) ==> q == Err::<OwnedRecord, Error>(e))
//@closure 1 params="r: RefRecord" ret="(o: OwnedRecord)"
            requires r.rwf()
            ensures o.head@ == r.head_v() && o.seq@ == r.seq_v() && o.qual@ == r.qual_v()
//@end
}

//@item fastq::RecordsIntoIter
//@impl_open fastq::Iterator for RecordsIntoIter::next inherent=1
//@fn fastq::Iterator for RecordsIntoIter::next ret=r tags=C20,C04,C13
//@spec
        requires
            old(self).rdr.wf(),
        ensures
            [C04,C06,C20|fastq.RecordsIntoIter.next.wf] final(self).rdr.wf() && final(self).rdr.f() == old(self).rdr.f(),
            [C20|fastq.RecordsIntoIter.next.end_is_sticky] old(self).rdr.state == State::Finished ==> r is None && final(self).rdr.state == State::Finished,
            [C04,C20|fastq.RecordsIntoIter.next.end] r is None ==> final(self).rdr.state == State::Finished
                && (old(self).rdr.state == State::Finished || old(self).rdr.poisoned() || !old(self).rdr.clean() || end_ok(old(self).rdr.f(), old(self).rdr.cursor())),
            [C02,C04,C13|fastq.RecordsIntoIter.next.record] r matches Some(Ok(o)) ==> (!old(self).rdr.poisoned() && old(self).rdr.clean() ==> ({
                    let (ff, p) = (old(self).rdr.f(), old(self).rdr.cursor());
                    &&& group_complete(ff, p) && vok(ff, p)
                    &&& o.head@ == g_head(ff, p) && o.seq@ == g_seq(ff, p) && o.qual@ == g_qual(ff, p)
                    &&& final(self).rdr.cursor() == c4(ff, p) + 1 || final(self).rdr.state == State::Finished
                })),
//@closure 0 params="rec: Result<RefRecord, Error>" ret="(q: Result<OwnedRecord, Error>)"
            requires rec matches Ok(x) ==> x.rwf()
            ensures (rec matches Ok(x) ==> q matches Ok(o) && o.head@ == x.head_v() && o.seq@ == x.seq_v() && o.qual@ == x.qual_v()),
                (rec matches Err(e) ==> q == Err::<OwnedRecord, Error>(e))
//@closure 1 params="r: RefRecord" ret="(o: OwnedRecord)"
            requires r.rwf()
            ensures o.head@ == r.head_v() && o.seq@ == r.seq_v() && o.qual@ == r.qual_v()
//@end
}

//@impl_open fastq::Reader::records
//@fn fastq::Reader::records ret=r tags=C20,C04
//@spec
        ensures
            [C04,C20|fastq.records.same_reader] *r.rdr == *old(self) && *final(r.rdr) == *final(self),
//@end
//@fn fastq::Reader::into_records ret=r tags=C20,C04
//@spec
        ensures
            [C04,C20|fastq.into_records.same_reader] r.rdr == self,
//@end
}

    } // verus!
}
