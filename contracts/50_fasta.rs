// =====================================================================================================
// /verif/contracts/50_fasta.rs — src/fasta.rs under contract
// =====================================================================================================
pub mod fasta {
    use vstd::prelude::*;
    use super::io;
    use super::io::Seek;
    use super::buffer_redux;
    use super::memchr_iter_stub::Memchr;
    use super::spec::*;
    use super::policy::{BufPolicy, StdPolicy};
    use super::lib_::*;
    use super::stdspecs::*;
    use super::vx_panic;
    use core::slice;
    use core::iter::Iterator as StdIterator;
    use vstd::std_specs::iter::IteratorSpec;
    verus! {
//@default vis=strip

//@item lib::try_opt
//@item lib::unwrap_or

//@item fasta::DefaultPolicy
//@item fasta::BUFSIZE
//@item fasta::State attrs="#[derive(Structural, Eq, PartialEq, Clone, Copy)]"
//@item fasta::Reader
//@item fasta::Position attrs="#[derive(Structural, PartialEq, Eq)]"
    /// T7: derived Clone
    impl Clone for Position {
        #[verifier::external_body]
        fn clone(&self) -> (r: Self) ensures r == *self { Position { line: self.line, byte: self.byte } }
    }
//@item fasta::Error vis=keep
//@impl_open fasta::From for Error::from
//@fn fasta::From for Error::from ret=r tags=C14
//@spec
        ensures
            [C14|fasta.from_io_error] r == Error::Io(e),
//@end
}
    impl vstd::std_specs::convert::FromSpecImpl<io::Error> for Error {
        open spec fn obeys_from_spec() -> bool { true }
        open spec fn from_spec(e: io::Error) -> Error { Error::Io(e) }
    }

//@item fasta::BufferPosition
    /// T7: derived Clone
    impl BufferPosition {
        pub closed spec fn same_as(&self, o: &Self) -> bool { self.start == o.start && self.seq_pos@ == o.seq_pos@ }
    }
    impl Clone for BufferPosition {
        #[verifier::external_body]
        fn clone(&self) -> (r: Self) ensures r.same_as(self) { unimplemented!() }
    }
//@item fasta::RefRecord

    // ---------------------------------------------------------------------------------------------
    // specification of one FASTA record in a byte string b (used on the buffer and on the file)
    // ---------------------------------------------------------------------------------------------
    pub const GT: u8 = 62u8;

    /// all LF offsets of b in [i, j), ascending
    pub open spec fn lfs(b: Seq<u8>, i: int, j: int) -> Seq<int>
        decreases j - i
    {
        if j <= i { Seq::<int>::empty() }
        else if 0 <= j - 1 < b.len() && b[j - 1] == 10u8 { lfs(b, i, j - 1).push(j - 1) }
        else { lfs(b, i, j - 1) }
    }
    /// no LF in [i, j) is directly followed by '>' and each has a following byte: no record boundary inside
    pub open spec fn no_bnd(b: Seq<u8>, i: int, j: int) -> bool {
        forall|x: int| i <= x < j && #[trigger] b[x] == 10u8 ==> x + 1 < b.len() && b[x + 1] != 62u8
    }
    pub open spec fn spv(sp: Seq<usize>) -> Seq<int> { sp.map_values(|x: usize| x as int) }

    /// scanning the record that starts at `start` has reached `sp_end` without finding its end
    pub open spec fn partial(b: Seq<u8>, start: int, sp: Seq<usize>, sp_end: int) -> bool {
        0 <= start <= sp_end <= b.len() && spv(sp) == lfs(b, start, sp_end) && no_bnd(b, start, sp_end)
    }
    /// the record ends at the LF at sp_end-1, and b[sp_end] is the '>' of the next record
    pub open spec fn complete(b: Seq<u8>, start: int, sp: Seq<usize>, sp_end: int) -> bool {
        0 <= start < sp_end < b.len() && b[sp_end - 1] == 10u8 && b[sp_end] == 62u8
            && spv(sp) == lfs(b, start, sp_end) && no_bnd(b, start, sp_end - 1)
    }
    /// the scan stopped at the end of b: sp_end is |b|, or the LF that is the last byte of b
    pub open spec fn at_end(b: Seq<u8>, sp_end: int) -> bool {
        sp_end == b.len() || (sp_end == b.len() - 1 && b[sp_end] == 10u8)
    }
    /// last record of the input: the final entry of sp is the end of the last line (final LF or |b|)
    pub open spec fn eofrec(b: Seq<u8>, start: int, sp: Seq<usize>, sp_end: int) -> bool {
        0 <= start <= sp_end <= b.len() && at_end(b, sp_end) && spv(sp) == lfs(b, start, sp_end).push(sp_end) && no_bnd(b, start, sp_end)
    }

    pub proof fn lemma_lfs_bounds(b: Seq<u8>, i: int, j: int)
        requires 0 <= i <= j <= b.len()
        ensures lfs(b, i, j).len() <= j - i,
                forall|k: int| 0 <= k < lfs(b, i, j).len() ==> i <= #[trigger] lfs(b, i, j)[k] < j && b[lfs(b, i, j)[k]] == 10u8,
                forall|k: int, l: int| 0 <= k < l < lfs(b, i, j).len() ==> lfs(b, i, j)[k] < lfs(b, i, j)[l],
        decreases j - i
    {
        if j > i { lemma_lfs_bounds(b, i, j - 1); }
    }
    /// no LF in [j, j2) ==> same list
    pub proof fn lemma_lfs_skip(b: Seq<u8>, i: int, j: int, j2: int)
        requires 0 <= i <= j <= j2 <= b.len(), forall|x: int| j <= x < j2 ==> b[x] != 10u8
        ensures lfs(b, i, j2) == lfs(b, i, j)
        decreases j2 - j
    {
        if j2 > j { lemma_lfs_skip(b, i, j, j2 - 1); }
    }

//@impl_open fasta::Reader::_search
    spec fn b(&self) -> Seq<u8> { self.buf_reader.buf() }
    spec fn f(&self) -> Seq<u8> { self.buf_reader.file() }
    spec fn base(&self) -> int { self.buf_reader.base() as int }
    spec fn clean(&self) -> bool { self.buf_reader.errs().len() == 0 }
    spec fn filled(&self) -> bool { !self.clean() || self.b().len() == self.buf_reader.cap() || self.buf_reader.at_eof() }
    spec fn wf0(&self) -> bool {
        &&& self.buf_reader.wf()
        &&& self.buf_reader.head() == 0
        &&& self.buf_reader.cap() >= 1
        &&& self.buf_policy.policy_ok()
    }
    /// nothing but buf_pos.seq_pos / search_pos / state may differ
    spec fn same_io(&self, o: &Self) -> bool {
        self.buf_reader == o.buf_reader && self.position == o.position && self.buf_policy == o.buf_policy && self.buf_pos.start == o.buf_pos.start
    }

//@fn fasta::Reader::get_buf ret=r tags=C06
//@spec
        ensures
            [C06,C01|fasta.get_buf.is_buffer] r@ == self.b(),
//@end

//@fn fasta::Reader::_search ret=r tags=C01,C06
//@spec
        requires
            old(self).buf_reader.wf(),
            partial(old(self).b(), old(self).buf_pos.start as int, old(self).buf_pos.seq_pos@, old(self).search_pos as int),
        ensures
            [C01,C06|fasta._search.frame] final(self).same_io(old(self)) && final(self).state == old(self).state,
            [C01|fasta._search.found] r ==> complete(final(self).b(), final(self).buf_pos.start as int, final(self).buf_pos.seq_pos@, final(self).search_pos as int),
            [C01|fasta._search.not_found] !r ==> partial(final(self).b(), final(self).buf_pos.start as int, final(self).buf_pos.seq_pos@, final(self).search_pos as int)
                && at_end(final(self).b(), final(self).search_pos as int),
//@loop 0 r8=vx_mc
            invariant
                self.same_io(old(self)) && self.state == old(self).state && self.search_pos == old(self).search_pos,
                self.buf_reader.wf(), bufsize == self.b().len(),
                vx_mc.hay() == self.b().subrange(self.search_pos as int, self.b().len() as int) && vx_mc.needle() == 10u8,
                0 <= vx_mc.at() <= vx_mc.hay().len(),
                [C01|fasta._search.inv.scanned_prefix] partial(self.b(), self.buf_pos.start as int, self.buf_pos.seq_pos@, self.search_pos + vx_mc.at()),
            ensures
                [C01|fasta._search.loop_exit] partial(self.b(), self.buf_pos.start as int, self.buf_pos.seq_pos@, self.b().len() as int)
                    && self.same_io(old(self)) && self.state == old(self).state,
            decreases vx_mc.hay().len() - vx_mc.at(),
//---pre
            let ghost at0 = vx_mc.at();
            proof {
                lemma_first_of_bounds(vx_mc.hay(), 10u8, at0);
                if first_of(vx_mc.hay(), 10u8, at0) >= vx_mc.hay().len() {
                    // nothing more to find: the scanned prefix reaches the end of the buffer
                    let bb = self.b();
                    let sp0 = self.search_pos as int;
                    assert forall|x: int| sp0 + at0 <= x < bb.len() implies bb[x] != 10u8 by { assert(vx_mc.hay()[x - sp0] == bb[x]); }
                    lemma_lfs_skip(bb, self.buf_pos.start as int, sp0 + at0, bb.len() as int);
                }
            }
//@at depth=2 kw=let nth=0 expect="let \w+ = self\.search_pos \+ "
            proof {
                // pos (relative) is the first LF of the haystack at or after at0
                let bb = self.b();
                let sp0 = self.search_pos as int;
                assert forall|x: int| sp0 + at0 <= x < sp0 + pos implies bb[x] != 10u8 by { assert(vx_mc.hay()[x - sp0] == bb[x]); }
                assert(vx_mc.hay()[pos as int] == bb[sp0 + pos]);
                lemma_lfs_skip(bb, self.buf_pos.start as int, sp0 + at0, sp0 + pos);
                lemma_lfs_bounds(bb, self.buf_pos.start as int, sp0 + pos);
            }
//@at depth=2 kw=if nth=1 expect="if self\.get_buf\(\)\["
            proof {
                let bb = self.b();
                let ghost_sp = old(self).search_pos as int;
                assert(spv(self.buf_pos.seq_pos@) =~= lfs(bb, self.buf_pos.start as int, pos as int).push(pos as int));
                assert(lfs(bb, self.buf_pos.start as int, pos + 1) == lfs(bb, self.buf_pos.start as int, pos as int).push(pos as int));
            }
//@end
}

    } // verus!
}
