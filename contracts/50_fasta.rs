// =====================================================================================================
// /verif/contracts/50_fasta.rs — src/fasta.rs under contract
// =====================================================================================================
pub mod fasta {
    use vstd::prelude::*;
    use super::io;
    use super::io::Seek;
    use super::buffer_redux;
    use super::memchr_iter_stub::Memchr;
    use super::spec::*;
    use super::policy::{BufPolicy, StdPolicy};
    use super::lib_::*;
    use super::stdspecs::*;
    use super::vx_panic;
    use core::slice;
    use core::str::{self, Utf8Error};
    use core::iter::Iterator as StdIterator;
    use vstd::std_specs::iter::IteratorSpec;
    use vstd::std_specs::iter::DoubleEndedIteratorSpec;
    use std::borrow::Cow;
    verus! {
//@default vis=strip r12=.

    /// Local stand-ins for the std iterator traits so that the crate's `impl Iterator for ..` headers can be kept verbatim.
    /// The byte-view protocol (it_lawful / it_views / iv) is what the generic writer functions rely on:
    /// a lawful iterator yields items whose byte views are it_views(), in order, and then stays exhausted.
    trait Iterator {
        type Item;
        #[verifier::prophetic] spec fn it_pre(&self) -> bool;
        spec fn it_lawful(&self) -> bool;
        #[verifier::prophetic] spec fn it_views(&self) -> Seq<Seq<u8>>;
        spec fn iv(x: &Self::Item) -> Seq<u8>;
        /// termination measure (not prophetic)
        spec fn it_dec(&self) -> nat;
        fn next(&mut self) -> (r: Option<Self::Item>)
            requires old(self).it_pre()
            ensures final(self).it_pre(), final(self).it_lawful() == old(self).it_lawful(),
                r is Some ==> final(self).it_dec() < old(self).it_dec(),
                old(self).it_lawful() ==> (
                    (old(self).it_views().len() == 0 ==> r is None && final(self).it_views().len() == 0)
                    && (old(self).it_views().len() > 0 ==> (r matches Some(x) && Self::iv(&x) == old(self).it_views()[0])
                            && final(self).it_views() == old(self).it_views().drop_first()));
        /// std's default
        fn size_hint(&self) -> (r: (usize, Option<usize>))
            requires self.it_pre()
        { (0, None) }
    }
    mod iter {
        pub use core::iter::{Zip, Skip, Take};
        use vstd::prelude::*;
        verus! {
        pub(super) trait IntoIterator: Sized {
            type Item;
            type IntoIter: super::Iterator<Item = Self::Item>;
            #[verifier::prophetic] spec fn ii_pre(self) -> bool;
            /// byte views of the items the resulting iterator will yield (meaningful when ii_lawful)
            #[verifier::prophetic] spec fn ii_views(self) -> Seq<Seq<u8>>;
            spec fn ii_lawful(self) -> bool;
            fn into_iter(self) -> (r: Self::IntoIter)
                requires self.ii_pre()
                ensures super::Iterator::it_pre(&r),
                    self.ii_lawful() ==> super::Iterator::it_lawful(&r) && super::Iterator::it_views(&r) == self.ii_views();
        }
        /// std: every Iterator is IntoIterator (identity)
        impl<I: super::Iterator> IntoIterator for I {
            type Item = I::Item;
            type IntoIter = I;
            #[verifier::prophetic] open spec fn ii_pre(self) -> bool { super::Iterator::it_pre(&self) }
            #[verifier::prophetic] open spec fn ii_views(self) -> Seq<Seq<u8>> { super::Iterator::it_views(&self) }
            open spec fn ii_lawful(self) -> bool { super::Iterator::it_lawful(&self) }
            fn into_iter(self) -> (r: I) { self }
        }
        }
    }
    use self::iter::IntoIterator;
    trait DoubleEndedIterator: Iterator {
        fn next_back(&mut self) -> (r: Option<Self::Item>)
            requires old(self).it_pre()
            ensures final(self).it_pre(), final(self).it_lawful() == old(self).it_lawful(),
                old(self).it_lawful() ==> (
                    (old(self).it_views().len() == 0 ==> r is None && final(self).it_views().len() == 0)
                    && (old(self).it_views().len() > 0 ==> (r matches Some(x) && Self::iv(&x) == old(self).it_views().last())
                            && final(self).it_views() == old(self).it_views().drop_last()));
    }
    trait ExactSizeIterator: Iterator {
        fn len(&self) -> (r: usize)
            requires self.it_pre()
            ensures self.it_lawful() ==> r == self.it_views().len();
    }

//@item lib::try_opt
//@item lib::unwrap_or

//@item fasta::DefaultPolicy
//@item fasta::BUFSIZE
//@item fasta::State attrs="#[derive(Structural, Eq, PartialEq, Clone, Copy)]"
//@item fasta::Reader
//@item fasta::Position attrs="#[derive(Structural, PartialEq, Eq)]"
    /// T7: derived Clone
    impl Clone for Position {
        #[verifier::external_body]
        fn clone(&self) -> (r: Self) ensures r == *self { Position { line: self.line, byte: self.byte } }
    }
//@item fasta::Error vis=keep
//@impl_open fasta::From for Error::from
//@fn fasta::From for Error::from ret=r tags=C14
//@spec
        ensures
            [C14|fasta.from_io_error] r == Error::Io(e),
//@end
}
    impl vstd::std_specs::convert::FromSpecImpl<io::Error> for Error {
        open spec fn obeys_from_spec() -> bool { true }
        open spec fn from_spec(e: io::Error) -> Error { Error::Io(e) }
    }

//@item fasta::BufferPosition
    /// T7: derived Clone
    impl BufferPosition {
        pub closed spec fn same_as(&self, o: &Self) -> bool { self.start == o.start && self.seq_pos@ == o.seq_pos@ }
    }
    impl Clone for BufferPosition {
        #[verifier::external_body]
        fn clone(&self) -> (r: Self) ensures r.same_as(self) { unimplemented!() }
    }
//@item fasta::RefRecord

    // ---------------------------------------------------------------------------------------------
    // specification of one FASTA record in a byte string b (used on the buffer and on the file)
    // ---------------------------------------------------------------------------------------------
    pub const GT: u8 = 62u8;

    /// all LF offsets of b in [i, j), ascending
    pub open spec fn lfs(b: Seq<u8>, i: int, j: int) -> Seq<int>
        decreases j - i
    {
        if j <= i { Seq::<int>::empty() }
        else if 0 <= j - 1 < b.len() && b[j - 1] == 10u8 { lfs(b, i, j - 1).push(j - 1) }
        else { lfs(b, i, j - 1) }
    }
    /// no LF in [i, j) is directly followed by '>' and each has a following byte: no record boundary inside
    pub open spec fn no_bnd(b: Seq<u8>, i: int, j: int) -> bool {
        forall|x: int| i <= x < j && #[trigger] b[x] == 10u8 ==> x + 1 < b.len() && b[x + 1] != 62u8
    }
    pub open spec fn spv(sp: Seq<usize>) -> Seq<int> { sp.map_values(|x: usize| x as int) }

    /// scanning the record that starts at `start` has reached `e` without finding its end; l = the LF offsets seen
    pub open spec fn partial_l(b: Seq<u8>, start: int, l: Seq<int>, e: int) -> bool {
        0 <= start <= e <= b.len() && l == lfs(b, start, e) && no_bnd(b, start, e)
    }
    /// the record ends at the LF at e-1, and b[e] is the '>' of the next record
    pub open spec fn complete_l(b: Seq<u8>, start: int, l: Seq<int>, e: int) -> bool {
        0 <= start < e < b.len() && b[e - 1] == 10u8 && b[e] == 62u8 && l == lfs(b, start, e) && no_bnd(b, start, e - 1)
    }
    /// the scan stopped at the end of b: e is |b|, or the LF that is the last byte of b
    pub open spec fn at_end(b: Seq<u8>, e: int) -> bool {
        (e == b.len() && !(b.len() > 0 && b[b.len() - 1] == 10u8)) || (e == b.len() - 1 && b[e] == 10u8)
    }
    /// last record of the input: the final entry of l is the end of the last line (final LF or |b|)
    pub open spec fn eofrec_l(b: Seq<u8>, start: int, l: Seq<int>, e: int) -> bool {
        0 <= start <= e <= b.len() && at_end(b, e) && l == lfs(b, start, e).push(e) && no_bnd(b, start, e)
    }
    pub open spec fn partial(b: Seq<u8>, start: int, sp: Seq<usize>, e: int) -> bool { partial_l(b, start, spv(sp), e) }
    pub open spec fn complete(b: Seq<u8>, start: int, sp: Seq<usize>, e: int) -> bool { complete_l(b, start, spv(sp), e) }
    pub open spec fn eofrec(b: Seq<u8>, start: int, sp: Seq<usize>, e: int) -> bool { eofrec_l(b, start, spv(sp), e) }
    /// shift every offset by d
    pub open spec fn shl(l: Seq<int>, d: int) -> Seq<int> { l.map_values(|x: int| x + d) }

    /// a window [a, a+|w|) of f has the same LFs, shifted
    pub proof fn lemma_lfs_window(f: Seq<u8>, a: int, w: Seq<u8>, i: int, j: int)
        requires 0 <= a, a + w.len() <= f.len(), w == f.subrange(a, a + w.len()), 0 <= i <= j <= w.len()
        ensures lfs(f, a + i, a + j) == shl(lfs(w, i, j), a)
        decreases j - i
    {
        if j > i {
            lemma_lfs_window(f, a, w, i, j - 1);
            assert(w[j - 1] == f[a + j - 1]);
            if w[j - 1] == 10u8 {
                assert(shl(lfs(w, i, j - 1).push(j - 1), a) =~= shl(lfs(w, i, j - 1), a).push(a + j - 1));
            }
        } else {
            assert(shl(lfs(w, i, j), a) =~= Seq::<int>::empty());
        }
    }
    /// the number of LFs between two offsets is the length of the list
    pub proof fn lemma_count_lfs(f: Seq<u8>, i: int, j: int)
        requires 0 <= i <= j <= f.len()
        ensures count_lf(f, j) - count_lf(f, i) == lfs(f, i, j).len()
        decreases j - i
    {
        if j > i { lemma_count_lfs(f, i, j - 1); }
    }
    /// appending bytes to b keeps what has been scanned
    pub proof fn lemma_partial_prefix(b: Seq<u8>, b2: Seq<u8>, start: int, l: Seq<int>, e: int)
        requires partial_l(b, start, l, e), b.len() <= b2.len(), b2.subrange(0, b.len() as int) == b
        ensures partial_l(b2, start, l, e)
    {
        assert(b == b2.subrange(0, b.len() as int));
        lemma_lfs_window(b2, 0, b, start, e);
        assert(shl(lfs(b, start, e), 0) =~= lfs(b, start, e));
        assert forall|x: int| start <= x < e && #[trigger] b2[x] == 10u8 implies x + 1 < b2.len() && b2[x + 1] != 62u8 by {
            assert(b[x] == b2[x]);
            assert(b[x + 1] == b2[x + 1]);
        }
    }
    /// no record boundary in the scanned part of the buffer window means none in that part of the file
    pub proof fn lemma_no_bnd_lift(f: Seq<u8>, a: int, w: Seq<u8>, i: int, j: int)
        requires 0 <= a, a + w.len() <= f.len(), w == f.subrange(a, a + w.len()), 0 <= i <= j <= w.len(), no_bnd(w, i, j)
        ensures no_bnd(f, a + i, a + j)
    {
        assert forall|x: int| a + i <= x < a + j && #[trigger] f[x] == 10u8 implies x + 1 < f.len() && f[x + 1] != 62u8 by {
            assert(w[x - a] == f[x]);
            assert(w[x - a + 1] == f[x + 1]);
        }
    }
    /// the record predicates are stable under taking a window of the file (buffer -> file lifting)
    pub proof fn lemma_rec_lift(f: Seq<u8>, a: int, w: Seq<u8>, start: int, l: Seq<int>, e: int)
        requires 0 <= a, a + w.len() <= f.len(), w == f.subrange(a, a + w.len())
        ensures complete_l(w, start, l, e) ==> complete_l(f, a + start, shl(l, a), a + e),
                partial_l(w, start, l, e) ==> partial_l(f, a + start, shl(l, a), a + e) || (e == w.len() && 0 <= start <= e && shl(l, a) == lfs(f, a + start, a + e)),
                eofrec_l(w, start, l, e) && a + w.len() == f.len() && start < w.len() ==> eofrec_l(f, a + start, shl(l, a), a + e),
    {
        if 0 <= start <= e <= w.len() {
            lemma_lfs_window(f, a, w, start, e);
            assert forall|x: int| a + start <= x < a + e - 1 && #[trigger] f[x] == 10u8 && no_bnd(w, start, e - 1) implies x + 1 < f.len() && f[x + 1] != 62u8 by {
                assert(w[x - a] == f[x]); assert(w[x - a + 1] == f[x + 1]);
            }
            if e < w.len() { assert(w[e] == f[a + e]); }
            if e >= 1 && e - 1 < w.len() { assert(w[e - 1] == f[a + e - 1]); }
            if eofrec_l(w, start, l, e) && a + w.len() == f.len() && start < w.len() {
                if w.len() > 0 { assert(w[w.len() - 1] == f[f.len() - 1]); }
                assert forall|x: int| a + start <= x < a + e && #[trigger] f[x] == 10u8 implies x + 1 < f.len() && f[x + 1] != 62u8 by {
                    assert(w[x - a] == f[x]); assert(w[x - a + 1] == f[x + 1]);
                }
                assert(shl(lfs(w, start, e).push(e), a) =~= shl(lfs(w, start, e), a).push(a + e));
            }
        }
    }

    /// start offset of the first non-blank line at or after the line start i; |f| if there is none
    pub open spec fn first_nonblank(f: Seq<u8>, i: int) -> int
        decreases f.len() - i via first_nonblank_dec
    {
        if i < 0 || i >= f.len() { f.len() as int } else {
            let k = nl(f, i);
            if blank(f.subrange(i, k)) { if k < f.len() { first_nonblank(f, k + 1) } else { f.len() as int } } else { i }
        }
    }
    #[via_fn]
    proof fn first_nonblank_dec(f: Seq<u8>, i: int) { if 0 <= i <= f.len() { lemma_nl_bounds(f, i); } }

    /// a non-blank beginning of a line makes the line non-blank: the first non-blank line starts here
    pub proof fn lemma_fnb_here(f: Seq<u8>, i: int, m: int)
        requires 0 <= i, 1 <= m, i + m <= nl(f, i), i + m <= f.len(), !blank(f.subrange(i, i + m))
        ensures first_nonblank(f, i) == i
    {
        lemma_nl_bounds(f, i);
        let k = nl(f, i);
        let piece = f.subrange(i, i + m);
        let line = f.subrange(i, k);
        assert(line.len() >= m);
        if blank(line) {
            // line is empty or [CR]; then its prefix of length m >= 1 is the whole line
            assert(line.len() <= 1);
            assert(piece =~= line);
        }
    }
    /// a complete blank line is skipped
    pub proof fn lemma_fnb_skip(f: Seq<u8>, i: int)
        requires 0 <= i < f.len(), nl(f, i) < f.len(), blank(f.subrange(i, nl(f, i)))
        ensures first_nonblank(f, i) == first_nonblank(f, nl(f, i) + 1)
    { }
    /// a blank unterminated rest
    pub proof fn lemma_fnb_tail(f: Seq<u8>, i: int)
        requires 0 <= i <= f.len(), nl(f, i) == f.len(), blank(f.subrange(i, f.len() as int))
        ensures first_nonblank(f, i) == f.len()
    { }

    pub proof fn lemma_lfs_bounds(b: Seq<u8>, i: int, j: int)
        requires 0 <= i <= j <= b.len()
        ensures lfs(b, i, j).len() <= j - i,
                forall|k: int| 0 <= k < lfs(b, i, j).len() ==> i <= #[trigger] lfs(b, i, j)[k] < j && b[lfs(b, i, j)[k]] == 10u8,
                forall|k: int, l: int| 0 <= k < l < lfs(b, i, j).len() ==> lfs(b, i, j)[k] < lfs(b, i, j)[l],
        decreases j - i
    {
        if j > i { lemma_lfs_bounds(b, i, j - 1); }
    }
    /// no LF in [j, j2) ==> same list
    pub proof fn lemma_lfs_skip(b: Seq<u8>, i: int, j: int, j2: int)
        requires 0 <= i <= j <= j2 <= b.len(), forall|x: int| j <= x < j2 ==> b[x] != 10u8
        ensures lfs(b, i, j2) == lfs(b, i, j)
        decreases j2 - j
    {
        if j2 > j { lemma_lfs_skip(b, i, j, j2 - 1); }
    }

//@impl_open fasta::Reader::_search
    spec fn b(&self) -> Seq<u8> { self.buf_reader.buf() }
    spec fn f(&self) -> Seq<u8> { self.buf_reader.file() }
    spec fn base(&self) -> int { self.buf_reader.base() as int }
    spec fn clean(&self) -> bool { self.buf_reader.errs().len() == 0 }
    spec fn filled(&self) -> bool { !self.clean() || self.b().len() == self.buf_reader.cap() || self.buf_reader.at_eof() }
    spec fn wf0(&self) -> bool {
        &&& self.buf_reader.wf()
        &&& self.buf_reader.head() == 0
        &&& self.buf_reader.cap() >= 1
        &&& self.buf_policy.policy_ok()
    }
    /// nothing but buf_pos.seq_pos / search_pos / state may differ
    spec fn same_io(&self, o: &Self) -> bool {
        self.buf_reader == o.buf_reader && self.position == o.position && self.buf_policy == o.buf_policy && self.buf_pos.start == o.buf_pos.start
    }

//@fn fasta::Reader::get_buf ret=r tags=C06
//@spec
        ensures
            [C01,C03,C04,C06|fasta.get_buf.is_buffer] r@ == self.b(),
//@end

//@fn fasta::Reader::_search ret=r tags=C01,C06
//@local bufsize ord=0 kind=let
//@spec
        requires
            old(self).buf_reader.wf(),
            old(self).buf_pos.start < old(self).b().len() && old(self).b()[old(self).buf_pos.start as int] == 62u8,
            partial(old(self).b(), old(self).buf_pos.start as int, old(self).buf_pos.seq_pos@, old(self).search_pos as int),
        ensures
            [C01,C03,C04,C05,C06|fasta._search.frame] final(self).same_io(old(self)) && final(self).state == old(self).state,
            [C01,C03,C04|fasta._search.found] r ==> complete(final(self).b(), final(self).buf_pos.start as int, final(self).buf_pos.seq_pos@, final(self).search_pos as int),
            [C01,C03,C04|fasta._search.not_found] !r ==> partial(final(self).b(), final(self).buf_pos.start as int, final(self).buf_pos.seq_pos@, final(self).search_pos as int)
                && at_end(final(self).b(), final(self).search_pos as int),
//@loop 0 r8=vx_mc
            invariant
                self.same_io(old(self)) && self.state == old(self).state && self.search_pos == old(self).search_pos,
                self.buf_reader.wf(), bufsize == self.b().len(),
                vx_mc.hay() == self.b().subrange(self.search_pos as int, self.b().len() as int) && vx_mc.needle() == 10u8,
                0 <= vx_mc.at() <= vx_mc.hay().len(),
                [C01,C03,C04|fasta._search.inv.scanned_prefix] partial(self.b(), self.buf_pos.start as int, self.buf_pos.seq_pos@, self.search_pos + vx_mc.at()),
            ensures
                [C01,C03,C04|fasta._search.loop_exit] partial(self.b(), self.buf_pos.start as int, self.buf_pos.seq_pos@, self.b().len() as int)
                    && self.same_io(old(self)) && self.state == old(self).state,
            decreases vx_mc.hay().len() - vx_mc.at(),
//---pre
            let ghost at0 = vx_mc.at();
            proof {
                lemma_first_of_bounds(vx_mc.hay(), 10u8, at0);
                if first_of(vx_mc.hay(), 10u8, at0) >= vx_mc.hay().len() {
                    // nothing more to find: the scanned prefix reaches the end of the buffer
                    let bb = self.b();
                    let sp0 = self.search_pos as int;
                    assert forall|x: int| sp0 + at0 <= x < bb.len() implies bb[x] != 10u8 by { assert(vx_mc.hay()[x - sp0] == bb[x]); }
                    lemma_lfs_skip(bb, self.buf_pos.start as int, sp0 + at0, bb.len() as int);
                }
            }
//@at depth=2 kw=let nth=0 expect="let \w+ = "
            proof {
                // pos (relative) is the first LF of the haystack at or after at0
                let bb = self.b();
                let sp0 = self.search_pos as int;
                assert forall|x: int| sp0 + at0 <= x < sp0 + pos implies bb[x] != 10u8 by { assert(vx_mc.hay()[x - sp0] == bb[x]); }
                assert(vx_mc.hay()[pos as int] == bb[sp0 + pos]);
                lemma_lfs_skip(bb, self.buf_pos.start as int, sp0 + at0, sp0 + pos);
                lemma_lfs_bounds(bb, self.buf_pos.start as int, sp0 + pos);
            }
//@at depth=2 kw=if nth=1 expect="if "
            proof {
                let bb = self.b();
                let ghost_sp = old(self).search_pos as int;
                assert(spv(self.buf_pos.seq_pos@) =~= lfs(bb, self.buf_pos.start as int, pos as int).push(pos as int));
                assert(lfs(bb, self.buf_pos.start as int, pos + 1) == lfs(bb, self.buf_pos.start as int, pos as int).push(pos as int));
            }
//@end

//@fn fasta::Reader::search ret=r tags=C01,C06
//@spec
        requires
            old(self).buf_reader.wf(),
            old(self).buf_pos.start < old(self).b().len() && old(self).b()[old(self).buf_pos.start as int] == 62u8,
            partial(old(self).b(), old(self).buf_pos.start as int, old(self).buf_pos.seq_pos@, old(self).search_pos as int),
        ensures
            [C01,C03,C04,C05,C06|fasta.search.frame] final(self).same_io(old(self)),
            [C01,C03,C04|fasta.search.found] r matches Ok(true) ==> (
                (complete(final(self).b(), final(self).buf_pos.start as int, final(self).buf_pos.seq_pos@, final(self).search_pos as int) && final(self).state == old(self).state)
                || (eofrec(final(self).b(), final(self).buf_pos.start as int, final(self).buf_pos.seq_pos@, final(self).search_pos as int)
                    && final(self).state == State::Finished && final(self).b().len() < final(self).buf_reader.cap())),
            [C01,C03,C04|fasta.search.incomplete] r matches Ok(false) ==> partial(final(self).b(), final(self).buf_pos.start as int, final(self).buf_pos.seq_pos@, final(self).search_pos as int)
                && at_end(final(self).b(), final(self).search_pos as int) && final(self).state == State::Incomplete
                && final(self).b().len() >= final(self).buf_reader.cap(),
            [C01,C03,C06,C14,C17|fasta.search.no_error] r is Ok,
//@at depth=2 kw=return nth=1 expect="return Ok\(true\);"
            proof { assert(spv(self.buf_pos.seq_pos@) =~= lfs(self.b(), self.buf_pos.start as int, self.search_pos as int).push(self.search_pos as int)); }
//@end

//@fn fasta::Reader::increment_record tags=C05,C03,C06
//@spec
        requires
            old(self).buf_pos.start <= old(self).search_pos,
            old(self).position.byte + (old(self).search_pos - old(self).buf_pos.start) <= u64::MAX,
            old(self).position.line + old(self).buf_pos.seq_pos@.len() <= u64::MAX,
        ensures
            [C01,C03,C04,C05|fasta.increment_record.byte] final(self).position.byte == old(self).position.byte + (old(self).search_pos - old(self).buf_pos.start),
            [C01,C03,C04,C05,C12,C17|fasta.increment_record.line] final(self).position.line == old(self).position.line + old(self).buf_pos.seq_pos@.len(),
            [C01,C03,C04,C05|fasta.increment_record.start] final(self).buf_pos.start == old(self).search_pos && final(self).buf_pos.seq_pos@.len() == 0,
            [C01,C03,C04,C05,C06|fasta.increment_record.frame] final(self).buf_reader == old(self).buf_reader && final(self).buf_policy == old(self).buf_policy
                && final(self).state == old(self).state && final(self).search_pos == old(self).search_pos,
//@end

//@fn fasta::Reader::grow ret=r tags=C09,C06,C03
//@local cap ord=0 kind=let
//@spec
        requires
            old(self).wf0(),
        ensures
            [C01,C03,C04,C05,C06,C09|fasta.grow.frame] final(self).buf_reader.buf() == old(self).buf_reader.buf() && final(self).buf_reader.base() == old(self).buf_reader.base()
                && final(self).buf_reader.same_source(&old(self).buf_reader)
                && final(self).buf_pos == old(self).buf_pos && final(self).position == old(self).position
                && final(self).state == old(self).state && final(self).search_pos == old(self).search_pos
                && final(self).wf0(),
            [C09|fasta.grow.asks_policy_with_capacity] match old(self).buf_policy.answer(old(self).buf_reader.cap() as usize) {
                Some(n) => r is Ok && final(self).buf_reader.cap() >= old(self).buf_reader.cap()
                           && (old(self).b().len() == old(self).buf_reader.cap() ==> final(self).buf_reader.cap() >= n && final(self).buf_reader.cap() > old(self).buf_reader.cap()),
                None => r matches Err(Error::BufferLimit) && final(self).buf_reader.cap() == old(self).buf_reader.cap(),
            },
//@end

//@fn fasta::Reader::make_room tags=C03,C06,C09
//@local consumed ord=0 kind=let
//@spec
        requires
            old(self).wf0(),
            partial(old(self).b(), old(self).buf_pos.start as int, old(self).buf_pos.seq_pos@, old(self).search_pos as int),
        ensures
            [C01,C03,C04,C05,C06|fasta.make_room.window] final(self).wf0() && final(self).buf_reader.cap() == old(self).buf_reader.cap()
                && final(self).b() == old(self).b().subrange(old(self).buf_pos.start as int, old(self).b().len() as int)
                && final(self).base() == old(self).base() + old(self).buf_pos.start
                && final(self).buf_reader.same_source(&old(self).buf_reader),
            [C01,C03,C04,C05|fasta.make_room.offsets_shifted] final(self).buf_pos.start == 0
                && final(self).search_pos == old(self).search_pos - old(self).buf_pos.start
                && spv(final(self).buf_pos.seq_pos@) == shl(spv(old(self).buf_pos.seq_pos@), -(old(self).buf_pos.start as int))
                && partial(final(self).b(), 0, final(self).buf_pos.seq_pos@, final(self).search_pos as int)
                && (at_end(old(self).b(), old(self).search_pos as int) ==> at_end(final(self).b(), final(self).search_pos as int)),
            [C01,C03,C04,C05,C06|fasta.make_room.frame] final(self).position == old(self).position && final(self).state == old(self).state
                && final(self).buf_policy == old(self).buf_policy,
//@body_start
        let ghost old_sp = self.buf_pos.seq_pos@;
        let ghost b_old = self.b();
        proof {
            lemma_lfs_bounds(self.b(), self.buf_pos.start as int, self.search_pos as int);
            assert forall|i: int| 0 <= i < old_sp.len() implies old_sp[i] >= self.buf_pos.start by {
                assert(spv(old_sp)[i] == old_sp[i] as int);
            }
        }
//@loop 0 kw=for iter=it
            invariant
                it.index@ <= old_sp.len(), it.history@.len() == it.index@,
                forall|i: int| 0 <= i < old_sp.len() ==> old_sp[i] >= consumed,
                it.snapshot@.remaining().len() == old_sp.len(),
                forall|j: int| 0 <= j < old_sp.len() ==> *(#[trigger] it.snapshot@.remaining()[j]) == old_sp[j],
                forall|j: int| 0 <= j < it.index@ ==> #[trigger] it.history@[j] == it.snapshot@.remaining()[j],
                forall|j: int| 0 <= j < it.index@ ==> *final(#[trigger] it.snapshot@.remaining()[j]) == old_sp[j] - consumed,
//@body_end
        proof {
            let c = consumed as int;
            let e = old(self).search_pos as int;
            let b2 = self.b();
            assert(b2 == b_old.subrange(c, b_old.len() as int));
            lemma_lfs_window(b_old, c, b2, 0, e - c);
            assert(self.buf_pos.seq_pos@.len() == old_sp.len());
            assert(spv(self.buf_pos.seq_pos@) =~= shl(spv(old_sp), -c));
            assert(shl(shl(lfs(b2, 0, e - c), c), -c) =~= lfs(b2, 0, e - c));
            assert forall|x: int| 0 <= x < e - c && #[trigger] b2[x] == 10u8 implies x + 1 < b2.len() && b2[x + 1] != 62u8 by {
                assert(b_old[x + c] == b2[x]);
                if x + 1 < b2.len() { assert(b_old[x + c + 1] == b2[x + 1]); }
            }
        }
//@end

    /// nothing has been read yet
    spec fn fresh(&self) -> bool { self.b().len() == 0 && self.base() == 0 && self.clean() }

//@fn fasta::Reader::first_byte ret=r tags=C01,C03,C05,C06,C14,C17
//@local line_num ord=0 kind=letmut
//@local pos ord=1 kind=letmut
//@local last_line_len ord=2 kind=letmut
//@local line ord=3 kind=for
//@local n ord=4 kind=let
//@spec
        requires
            old(self).wf0(), old(self).buf_reader.cap() >= 2, old(self).base() == 0, old(self).position.byte == 0,
        ensures
            [C01,C03,C04,C05,C06,C14|fasta.first_byte.frame] final(self).wf0() && final(self).f() == old(self).f() && final(self).buf_policy == old(self).buf_policy
                && final(self).buf_reader.cap() == old(self).buf_reader.cap() && final(self).position.line == old(self).position.line
                && final(self).state == old(self).state && final(self).buf_pos == old(self).buf_pos && final(self).search_pos == old(self).search_pos
                && final(self).base() <= final(self).f().len(),
            [C03,C05,C06|fasta.first_byte.byte_position_follows_buffer] final(self).position.byte == final(self).base(),
            [C01,C03,C04,C05,C17|fasta.first_byte.found] r matches Ok(Some(t)) ==> final(self).buf_reader.errs() == old(self).buf_reader.errs()
                && t.1 < final(self).b().len() && final(self).b()[t.1 as int] == t.2 && final(self).filled()
                && final(self).base() + t.1 == first_nonblank(final(self).f(), 0)
                && t.0 == true_line(final(self).f(), final(self).base() + t.1),
            [C01,C03,C04|fasta.first_byte.empty] r matches Ok(None) ==> final(self).buf_reader.errs() == old(self).buf_reader.errs() && final(self).filled()
                && (old(self).fresh() ==> first_nonblank(final(self).f(), 0) == final(self).f().len()),
            [C01,C03,C14,C17|fasta.first_byte.err] r matches Err(e) ==> (e matches Error::Io(x) && final(self).buf_reader.errs() == old(self).buf_reader.errs().push(x)),
//@loop 0 kw=while
            invariant
                [C01,C03,C04|fasta.first_byte.outer.compacted] self.buf_reader.head() == 0,
                [C01,C03,C04,C05,C06,C14|fasta.first_byte.outer.frame] self.buf_reader.wf() && self.buf_reader.cap() >= 1 && self.buf_policy.policy_ok()
                    && self.f() == old(self).f() && self.buf_policy == old(self).buf_policy
                    && self.buf_reader.cap() == old(self).buf_reader.cap() && self.position.line == old(self).position.line
                    && self.state == old(self).state && self.buf_pos == old(self).buf_pos && self.search_pos == old(self).search_pos
                    && self.buf_reader.errs() == old(self).buf_reader.errs() && self.buf_reader.cap() >= 2
                    && self.position.byte == self.base() && (self.b().len() > 0 ==> self.base() + self.b().len() <= self.f().len()),
                [C01,C03,C04|fasta.first_byte.outer.skipped_blank_lines] self.base() <= self.f().len()
                    && first_nonblank(self.f(), 0) == first_nonblank(self.f(), self.base()),
                [C03,C05,C12,C17|fasta.first_byte.outer.line_count] line_num == count_lf(self.f(), self.base()) && line_num <= self.base(),
                [C01,C03,C04|fasta.first_byte.outer.leftover_is_blank] old(self).fresh() ==> self.b().len() <= 1 && blank(self.b()) && nl(self.b(), 0) == self.b().len(),
            decreases
                (if self.base() + self.b().len() <= self.f().len() { self.f().len() - self.base() - self.b().len() } else { 0 }),
//@closure 0 params="b: &u8" ret="(r: bool)"
            ensures r == (*b == 10u8)
//@at depth=2 kw=let nth=0 expect="let mut pos = 0;" unique=1
            let ghost mut g_last: int = 0;
//@loop 1 r8=vx_sp
            invariant
                [C01,C03,C04,C05,C06,C14|fasta.first_byte.inner.frame] self.wf0() && self.f() == old(self).f() && self.buf_policy == old(self).buf_policy
                    && self.buf_reader.cap() == old(self).buf_reader.cap() && self.position.line == old(self).position.line
                    && self.state == old(self).state && self.buf_pos == old(self).buf_pos && self.search_pos == old(self).search_pos
                    && self.buf_reader.errs() == old(self).buf_reader.errs() && self.buf_reader.cap() >= 2 && self.filled()
                    && self.b().len() > 0 && self.position.byte == self.base() && self.base() + self.b().len() <= self.f().len(),
                !split_done(&vx_sp) ==> line_num <= self.base() + pos,
                split_done(&vx_sp) ==> line_num <= self.base() + self.b().len() - g_last + 1 && 1 <= line_num,
                decides_eq(split_pred(&vx_sp), 10u8),
                #if_local(last_line_len) !split_done(&vx_sp) ==> pos == 0 || last_line_len == g_last,
                #if_local(last_line_len) split_done(&vx_sp) ==> last_line_len == g_last,
                !split_done(&vx_sp) ==> pos <= self.b().len() && split_rest(&vx_sp) == self.b().subrange(pos as int, self.b().len() as int),
                split_done(&vx_sp) ==> pos == self.b().len() + 1 && g_last <= self.b().len(),
                [C01,C03,C04|fasta.first_byte.inner.skipped_blank_lines] ({
                    &&& (!split_done(&vx_sp) ==> first_nonblank(self.f(), 0) == first_nonblank(self.f(), self.base() + pos))
                    &&& (split_done(&vx_sp) ==> ({
                            let lp = self.b().len() - g_last;
                            &&& first_nonblank(self.f(), 0) == first_nonblank(self.f(), self.base() + lp)
                            &&& nl(self.b(), lp) == self.b().len() && blank(self.b().subrange(lp, self.b().len() as int))
                        }))
                }),
                [C03,C05,C12,C17|fasta.first_byte.inner.line_count] ({
                    &&& (!split_done(&vx_sp) ==> line_num == count_lf(self.f(), self.base() + pos))
                    &&& (split_done(&vx_sp) ==> line_num == count_lf(self.f(), self.base() + self.b().len() - g_last) + 1)
                }),
            ensures
                pos == self.b().len() + 1 && g_last <= self.b().len() && 1 <= line_num
                    && line_num <= self.base() + self.b().len() - g_last + 1 && self.base() + self.b().len() <= self.f().len(),
                [C01,C03,C04|fasta.first_byte.inner.exit] ({
                            let lp = self.b().len() - g_last;
                            &&& first_nonblank(self.f(), 0) == first_nonblank(self.f(), self.base() + lp)
                            &&& nl(self.b(), lp) == self.b().len() && blank(self.b().subrange(lp, self.b().len() as int))
                        }),
                [C03,C05,C12,C17|fasta.first_byte.inner.exit_line_count] line_num == count_lf(self.f(), self.base() + self.b().len() - g_last) + 1,
            decreases (if split_done(&vx_sp) { 0int } else { split_rest(&vx_sp).len() as int + 1 }),
//---pre
            let ghost sr0 = split_rest(&vx_sp);
            let ghost pos0 = pos as int;
            let ghost done0 = split_done(&vx_sp);
//@at depth=3 kw=line_num nth=0 expect="line_num \+= 1;" unique=1
                proof {
                    assert(!done0);
                    let (ff, a, bb) = (self.f(), self.base(), self.b());
                    let n = bb.len() as int;
                    let k = line@.len() as int;
                    lemma_split_step_first_of(split_pred(&vx_sp), 10u8, sr0, k);
                    lemma_first_of_lf_is_nl(sr0, 0);
                    lemma_nl_window(bb, pos0, n, pos0);
                    lemma_nl_bounds(bb, pos0);
                    lemma_nl_window(ff, a, a + n, a + pos0);
                    lemma_nl_bounds(ff, a + pos0);
                    assert(line@ =~= bb.subrange(pos0, pos0 + k));
                    assert(line@ =~= ff.subrange(a + pos0, a + pos0 + k));
                    lemma_count_lf_mono(ff, 0, a + pos0);
                    if k < sr0.len() {
                        assert(split_rest(&vx_sp) =~= bb.subrange(pos0 + k + 1, n));
                        lemma_count_lf_line(ff, a + pos0);
                        if blank(line@) { lemma_fnb_skip(ff, a + pos0); }
                    }
                    if !blank(line@) { lemma_fnb_here(ff, a + pos0, k); }
                    g_last = k;
                }
//@after_loop 1
            proof {
                let (ff, a, bb) = (self.f(), self.base(), self.b());
                let lp = bb.len() - g_last;
                lemma_nl_bounds(bb, lp);
                assert(bb.subrange(lp, bb.len() as int).subrange(0, (bb.len() - lp) as int) =~= bb.subrange(lp, bb.len() as int));
            }
//@loop_end 0
            proof {
                let bb2 = self.b();
                lemma_nl_bounds(bb2, 0);
                if bb2.len() > 0 { assert(bb2[0] != 10u8); }
            }
//@at tail expect="(return )?Ok\(None\)"
        proof {
            // the last refill read nothing: the (blank, unterminated) leftover is the rest of the input
            if old(self).fresh() {
                let (ff, a, bb) = (self.f(), self.base(), self.b());
                if bb.len() > 0 {
                    lemma_nl_window(ff, a, a + bb.len(), a);
                    assert(ff.subrange(a, ff.len() as int) =~= bb);
                }
                lemma_nl_bounds(ff, a);
                if a < ff.len() { lemma_fnb_tail(ff, a); }
            }
        }
//@end

//@fn fasta::Reader::init ret=r tags=C01,C03,C05,C06,C14,C17
//@spec
        requires
            old(self).wf0(), old(self).buf_reader.cap() >= 2, old(self).state == State::New, old(self).base() == 0, old(self).position.byte == 0, old(self).buf_pos.start == 0,
        ensures
            [C01,C03,C04,C05,C06,C14|fasta.init.frame] final(self).wf0() && final(self).f() == old(self).f() && final(self).buf_policy == old(self).buf_policy
                && final(self).buf_reader.cap() == old(self).buf_reader.cap() && final(self).base() <= final(self).f().len()
                && final(self).position.byte == final(self).base() + final(self).buf_pos.start
                && (r matches Ok(true) || (final(self).buf_pos == old(self).buf_pos && final(self).search_pos == old(self).search_pos)),
            [C01,C03,C04,C05|fasta.init.first_record] r matches Ok(true) ==> final(self).buf_reader.errs() == old(self).buf_reader.errs()
                && final(self).state == State::New && final(self).filled()
                && final(self).buf_pos.start < final(self).b().len() && final(self).b()[final(self).buf_pos.start as int] == 62u8
                && final(self).search_pos == final(self).buf_pos.start + 1 && final(self).buf_pos.seq_pos@ == old(self).buf_pos.seq_pos@
                && final(self).base() + final(self).buf_pos.start == first_nonblank(final(self).f(), 0)
                && final(self).position.byte == first_nonblank(final(self).f(), 0)
                && final(self).position.line == true_line(final(self).f(), first_nonblank(final(self).f(), 0)),
            [C01,C04,C20|fasta.init.end_is_final] r matches Ok(false) ==> final(self).state == State::Finished,
            [C01,C03,C04|fasta.init.empty] r matches Ok(false) ==> final(self).buf_reader.errs() == old(self).buf_reader.errs() && final(self).filled()
                && (old(self).fresh() ==> first_nonblank(final(self).f(), 0) == final(self).f().len()),
            [C01,C03,C14,C17|fasta.init.err] r matches Err(e) ==> match e {
                Error::Io(x) => final(self).buf_reader.errs() == old(self).buf_reader.errs().push(x) && final(self).state == State::Finished,
                Error::InvalidStart { line, found } => final(self).buf_reader.errs() == old(self).buf_reader.errs() && final(self).state == State::Finished
                    && final(self).filled()
                    && ({ let s0 = first_nonblank(final(self).f(), 0);
                            s0 < final(self).f().len() && final(self).f()[s0] != 62u8 && found == final(self).f()[s0] && line == true_line(final(self).f(), s0) }),
                _ => false,
            },
//@end

    // ---- representation invariant -------------------------------------------------------------------
    spec fn gpos(&self) -> int { self.base() + self.buf_pos.start }
    spec fn coords(&self) -> bool {
        self.position.line == true_line(self.f(), self.position.byte as int) && self.position.byte <= self.f().len()
    }
    spec fn wf(&self) -> bool {
        &&& self.wf0() && self.buf_reader.cap() >= 2
        &&& self.position.byte == self.gpos()
        &&& self.buf_pos.start <= self.search_pos <= self.b().len()
        &&& match self.state {
                State::New => self.base() == 0 && self.buf_pos.start == 0 && self.search_pos == 0 && self.buf_pos.seq_pos@.len() == 0
                              && self.b().len() == 0 && self.position.byte == 0,
                State::Parsing => self.filled() && complete(self.b(), self.buf_pos.start as int, self.buf_pos.seq_pos@, self.search_pos as int)
                              && self.b()[self.buf_pos.start as int] == 62u8,
                State::Incomplete => partial(self.b(), self.buf_pos.start as int, self.buf_pos.seq_pos@, self.search_pos as int)
                              && self.buf_pos.start < self.b().len() && self.b()[self.buf_pos.start as int] == 62u8
                              && (self.clean() ==> at_end(self.b(), self.search_pos as int) && self.b().len() == self.buf_reader.cap()),
                State::Positioned => self.filled() && self.buf_pos.seq_pos@.len() == 0
                              && partial(self.b(), self.buf_pos.start as int, self.buf_pos.seq_pos@, self.search_pos as int)
                              && self.buf_pos.start < self.b().len() && self.b()[self.buf_pos.start as int] == 62u8,
                State::Finished => self.filled(),
            }
        &&& (self.state != State::Finished && self.state != State::New ==> self.coords())
    }
    /// cannot happen for FASTA any more (errors of the first fill are final); kept so that both formats read alike
    spec fn poisoned(&self) -> bool { false }
    /// file offset of the next unread record
    spec fn cursor(&self) -> int {
        match self.state {
            State::New => first_nonblank(self.f(), 0),
            State::Parsing => self.base() + self.search_pos,
            _ => self.gpos(),
        }
    }

//@fn fasta::Reader::resume_incomplete_search ret=r tags=C01,C03,C06,C09,C14
//@spec
        requires
            old(self).wf0(), old(self).filled(), old(self).buf_reader.cap() >= 2,
            partial(old(self).b(), old(self).buf_pos.start as int, old(self).buf_pos.seq_pos@, old(self).search_pos as int),
            old(self).buf_pos.start < old(self).b().len(), old(self).b()[old(self).buf_pos.start as int] == 62u8,
            old(self).state == State::Incomplete,
            old(self).clean() ==> old(self).b().len() == old(self).buf_reader.cap() && at_end(old(self).b(), old(self).search_pos as int),
        ensures
            [C01,C03,C04,C05,C06|fasta.resume.frame] final(self).wf0() && final(self).f() == old(self).f() && final(self).gpos() == old(self).gpos()
                && final(self).position == old(self).position && final(self).filled() && final(self).buf_pos.start < final(self).b().len()
                && final(self).b()[final(self).buf_pos.start as int] == old(self).b()[old(self).buf_pos.start as int]
                && final(self).buf_pos.start <= final(self).search_pos <= final(self).b().len(),
            [C01,C03,C04|fasta.resume.found] r matches Ok(found) ==> found && final(self).buf_reader.errs() == old(self).buf_reader.errs()
                && ((complete(final(self).b(), final(self).buf_pos.start as int, final(self).buf_pos.seq_pos@, final(self).search_pos as int) && final(self).state == State::Incomplete)
                    || (eofrec(final(self).b(), final(self).buf_pos.start as int, final(self).buf_pos.seq_pos@, final(self).search_pos as int) && final(self).state == State::Finished
                        && final(self).b().len() < final(self).buf_reader.cap())),
            [C01,C03,C04,C06|fasta.resume.err_keeps_scan] r is Err ==> final(self).state == State::Incomplete
                && partial(final(self).b(), final(self).buf_pos.start as int, final(self).buf_pos.seq_pos@, final(self).search_pos as int),
            [C14|fasta.resume.err_io] r matches Err(e) ==> (e matches Error::Io(x) ==> final(self).buf_reader.errs() == old(self).buf_reader.errs().push(x)),
            [C09,C06|fasta.resume.err_limit] r matches Err(e) ==> (e is BufferLimit ==> final(self).buf_reader.errs() == old(self).buf_reader.errs()
                        && (final(self).clean() ==> at_end(final(self).b(), final(self).search_pos as int) && final(self).b().len() == final(self).buf_reader.cap())),
            [C01,C06|fasta.resume.err_kinds] r matches Err(e) ==> e is Io || e is BufferLimit,
            [C01,C03,C04|fasta.resume.no_compaction_when_told] !make_room ==> final(self).base() == old(self).base()
                && final(self).buf_pos.start == old(self).buf_pos.start
                && old(self).b().len() <= final(self).b().len() && final(self).b().subrange(0, old(self).b().len() as int) == old(self).b(),
            [C09|fasta.resume.capacity_monotone] final(self).buf_reader.cap() >= old(self).buf_reader.cap(),
            [C03,C09|fasta.resume.growth_only_when_record_does_not_fit] make_room && old(self).clean()
                && final(self).buf_reader.cap() > old(self).buf_reader.cap() ==>
                no_bnd(final(self).f(), final(self).gpos(), final(self).gpos() + old(self).buf_reader.cap() - 1),
//@loop 0 kw=loop
            invariant
                [C01,C03,C04,C05,C06|fasta.resume.inv.frame] self.wf0() && self.filled() && self.f() == old(self).f() && self.gpos() == old(self).gpos()
                    && self.position == old(self).position && self.buf_reader.cap() >= 2 && self.state == State::Incomplete
                    && self.buf_pos.start < self.b().len() && self.b()[self.buf_pos.start as int] == old(self).b()[old(self).buf_pos.start as int]
                    && self.b()[self.buf_pos.start as int] == 62u8,
                [C01,C03,C04|fasta.resume.inv.partial] partial(self.b(), self.buf_pos.start as int, self.buf_pos.seq_pos@, self.search_pos as int),
                [C14|fasta.resume.inv.errs] self.buf_reader.errs() == old(self).buf_reader.errs(),
                [C01,C03,C04|fasta.resume.inv.no_compaction] !make_room ==> self.base() == old(self).base() && self.buf_pos.start == old(self).buf_pos.start
                    && old(self).b().len() <= self.b().len() && self.b().subrange(0, old(self).b().len() as int) == old(self).b(),
                [C09|fasta.resume.inv.capacity] self.buf_reader.cap() >= old(self).buf_reader.cap()
                    && (make_room && old(self).clean()
                        && self.buf_reader.cap() > old(self).buf_reader.cap() ==>
                        no_bnd(self.f(), self.gpos(), self.gpos() + old(self).buf_reader.cap() - 1)),
                [C03,C09|fasta.resume.inv.full_when_clean] self.clean() ==> self.b().len() == self.buf_reader.cap() && at_end(self.b(), self.search_pos as int),
            decreases
                (if self.base() + self.b().len() <= self.f().len() { self.f().len() - self.base() - self.b().len() } else { 0 }),
//@at depth=3 kw=self nth=0 expect="self\.grow\(\)" unique=1
                proof {
                    if make_room && self.clean() {
                        let e = self.search_pos as int;
                        lemma_no_bnd_lift(self.f(), self.base(), self.b(), 0, e);
                    }
                }
//@at depth=2 nth=1
            let ghost b_before = self.b();
            proof {
                // whatever the refill appends (also when it fails half-way), the scanned part stays valid
                let (st, l, e) = (self.buf_pos.start as int, spv(self.buf_pos.seq_pos@), self.search_pos as int);
                assert forall|b2: Seq<u8>| b_before.len() <= b2.len() && b2.subrange(0, b_before.len() as int) == b_before
                    implies #[trigger] partial_l(b2, st, l, e) by { lemma_partial_prefix(b_before, b2, st, l, e); }
            }
//@at depth=2 kw=if nth=1 expect="if self\.search\(\)" unique=1
            proof {
                lemma_partial_prefix(b_before, self.b(), self.buf_pos.start as int, spv(self.buf_pos.seq_pos@), self.search_pos as int);
            }
//@end

//@fn fasta::Reader::policy ret=r tags=C09
//@spec
        ensures
            [C09|fasta.policy.is_field] *r == self.buf_policy,
//@end

//@fn fasta::Reader::set_policy ret=r tags=C09
//@spec
        requires
            self.wf(), policy.policy_ok(),
        ensures
            [C09|fasta.set_policy.keeps_stream] r.wf() && r.buf_reader == self.buf_reader && r.buf_pos == self.buf_pos && r.position == self.position
                && r.search_pos == self.search_pos && r.state == self.state && r.buf_policy == policy
                && r.cursor() == self.cursor() && r.f() == self.f(),
//@end

//@fn fasta::Reader::next ret=r tags=C01,C03,C05,C06,C09,C14,C17
//@spec
        requires
            old(self).wf(),
        ensures
            [C01,C03,C04,C05,C06|fasta.next.wf] final(self).wf() && final(self).f() == old(self).f(),
            [C01,C04,C20|fasta.next.end_is_final] r is None ==> final(self).state == State::Finished,
            [C01,C03,C04,C06|fasta.next.end] r is None ==> final(self).buf_reader.errs() == old(self).buf_reader.errs()
                && (old(self).state == State::Finished || (old(self).state == State::New
                    && (old(self).fresh() ==> first_nonblank(old(self).f(), 0) == old(self).f().len()))),
            [C01,C04,C20|fasta.next.end_is_sticky] old(self).state == State::Finished ==> r is None,
            [C09|fasta.next.capacity_monotone] final(self).buf_reader.cap() >= old(self).buf_reader.cap(),
            [C03,C09|fasta.next.growth_only_when_record_does_not_fit] old(self).clean() && final(self).buf_reader.cap() > old(self).buf_reader.cap() ==>
                fa_nofit(old(self).f(), old(self).cursor(), old(self).buf_reader.cap() as int),
            [C14|fasta.next.source_errors_are_not_swallowed] (r is None || r matches Some(Ok(_))) ==> final(self).buf_reader.errs() == old(self).buf_reader.errs(),
            [C01,C03,C04,C06,C12|fasta.next.record] r matches Some(Ok(rec)) ==> final(self).buf_reader.errs() == old(self).buf_reader.errs()
                && old(self).state != State::Finished
                && rec.buffer@ == final(self).b() && *rec.buf_pos == final(self).buf_pos && rec.buf_pos.rwf(rec.buffer@)
                && (final(self).state == State::Parsing || final(self).state == State::Finished)
                && (!old(self).poisoned() && old(self).clean() ==> ({
                    let (ff, p) = (old(self).f(), old(self).cursor());
                    let l = shl(spv(final(self).buf_pos.seq_pos@), final(self).base());
                    let e = final(self).base() + final(self).search_pos;
                    &&& final(self).gpos() == p && 0 <= p < ff.len() && ff[p] == 62u8
                    &&& (final(self).state == State::Parsing ==> complete_l(ff, p, l, e))
                    &&& (final(self).state == State::Finished ==> eofrec_l(ff, p, l, e))
                })),
            [C03,C05|fasta.next.position] r matches Some(Ok(rec)) && !old(self).poisoned() && old(self).clean() ==>
                final(self).position.byte == old(self).cursor() && final(self).position.line == true_line(old(self).f(), old(self).cursor()),
            [C01,C03,C06,C14,C17|fasta.next.error] r matches Some(Err(e)) ==> match e {
                    Error::Io(x) => final(self).buf_reader.errs() == old(self).buf_reader.errs().push(x),
                    Error::BufferLimit => final(self).buf_reader.errs() == old(self).buf_reader.errs() && final(self).state == State::Incomplete,
                    Error::InvalidStart { line, found } => final(self).buf_reader.errs() == old(self).buf_reader.errs() && final(self).state == State::Finished
                        && old(self).state == State::New
                        && ({ let s0 = first_nonblank(old(self).f(), 0);
                            s0 < old(self).f().len() && old(self).f()[s0] != 62u8 && found == old(self).f()[s0] && line == true_line(old(self).f(), s0) }),
                },
//@body_start
        proof {
            lemma_count_lf_mono(self.f(), 0, self.position.byte as int);
            if self.state == State::Parsing {
                let (ff, a, bb, st, e) = (self.f(), self.base(), self.b(), self.buf_pos.start as int, self.search_pos as int);
                lemma_lfs_bounds(bb, st, e);
                lemma_lfs_window(ff, a, bb, st, e);
                lemma_count_lfs(ff, a + st, a + e);
                lemma_count_lf_mono(ff, 0, a + e);
                assert(spv(self.buf_pos.seq_pos@).len() == self.buf_pos.seq_pos@.len());
            }
        }
//@at depth=1 kw=if nth=0 expect="if self\.state != State::Incomplete" unique=1
        proof {
            assert(spv(self.buf_pos.seq_pos@) =~= Seq::<int>::empty() || self.state == State::Incomplete);
            if self.state != State::Incomplete {
                assert(lfs(self.b(), self.buf_pos.start as int, self.buf_pos.start as int) =~= Seq::<int>::empty());
            }
        }
//@at tail expect="(return )?Some\(Ok\("
        proof {
            let (ff, a, bb, st, e) = (self.f(), self.base(), self.b(), self.buf_pos.start as int, self.search_pos as int);
            lemma_rec_lift(ff, a, bb, st, spv(self.buf_pos.seq_pos@), e);
            self.buf_pos.lemma_rwf(bb, e);
        }
//@end

//@fn fasta::Reader::position ret=r tags=C05
//@spec
        ensures
            [C05|fasta.position.none_before_first_record] self.buf_pos.seq_pos@.len() == 0 ==> r is None,
            [C05|fasta.position.is_field] self.buf_pos.seq_pos@.len() > 0 ==> r == Some(&self.position),
//@end
}

//@impl_open fasta::Reader::seek
//@fn fasta::Reader::seek ret=r tags=C05,C06,C14
//@spec
        requires
            old(self).wf(),
            to.byte < old(self).f().len(), old(self).f()[to.byte as int] == 62u8,
            to.line == true_line(old(self).f(), to.byte as int),
            old(self).state == State::Finished ==> old(self).position.byte == old(self).gpos() && old(self).position.byte <= old(self).f().len() + 1,
        ensures
            [C01,C03,C04,C05,C06|fasta.seek.frame] final(self).f() == old(self).f() && final(self).buf_policy == old(self).buf_policy,
            [C03,C04,C05,C06|fasta.seek.positioned] r is Ok ==> final(self).wf() && final(self).state == State::Positioned
                && final(self).position == *to && final(self).gpos() == to.byte && final(self).cursor() == to.byte,
            [C03,C04,C05,C06,C14|fasta.seek.ok_no_error_raised] r is Ok ==> final(self).buf_reader.errs() == old(self).buf_reader.errs(),
            [C09|fasta.seek.capacity] final(self).buf_reader.cap() == old(self).buf_reader.cap(),
            [C01,C03,C14,C17|fasta.seek.err] r matches Err(e) ==> (e matches Error::Io(x) && final(self).buf_reader.errs() == old(self).buf_reader.errs().push(x)),
//@at depth=2 kw=return nth=0 expect="return Ok\(\(\)\);" unique=1
            proof {
                assert(lfs(self.b(), self.buf_pos.start as int, self.buf_pos.start as int) =~= Seq::<int>::empty());
                assert(spv(self.buf_pos.seq_pos@) =~= Seq::<int>::empty());
            }
//@at tail expect="(return )?Ok\(\(\)\)"
        proof {
            assert(lfs(self.b(), 0, 0) =~= Seq::<int>::empty());
            assert(spv(self.buf_pos.seq_pos@) =~= Seq::<int>::empty());
        }
//@end
}

//@impl_open fasta::Reader::with_capacity
//@fn fasta::Reader::with_capacity ret=r tags=C01,C06,C09
//@spec
        requires
            3 <= capacity <= isize::MAX,
        ensures
            [C01,C03,C04,C05,C06|fasta.with_capacity.fresh] r.wf() && r.state == State::New && r.fresh(),
            [C09|fasta.with_capacity.capacity] r.buf_reader.cap() >= capacity,
//@end
//@fn fasta::Reader::new ret=r tags=C01,C06,C09
//@spec
        ensures
            [C01,C03,C04,C05,C06|fasta.new.fresh] r.wf() && r.state == State::New && r.fresh(),
            [C09|fasta.new.capacity] r.buf_reader.cap() >= BUFSIZE,
//@end
}

//@impl_open fasta::Position::new
//@fn fasta::Position::new ret=r tags=C05
//@spec
        ensures
            [C05|fasta.Position.new] r.line == line && r.byte == byte,
//@end
//@fn fasta::Position::line ret=r tags=C05
//@spec
        ensures
            [C05|fasta.Position.line] r == self.line,
//@end
//@fn fasta::Position::byte ret=r tags=C05
//@spec
        ensures
            [C05|fasta.Position.byte] r == self.byte,
//@end
}

//@impl_open fasta::BufferPosition::is_new
    /// the offsets describe one complete record of b: '>' at start, every LF up to the record's end, the end itself
    spec fn rwf(&self, b: Seq<u8>) -> bool {
        let sp = spv(self.seq_pos@);
        sp.len() >= 1 && self.start < sp.last() <= b.len() && b[self.start as int] == 62u8
            && sp == lfs(b, self.start as int, sp.last()).push(sp.last())
    }
    proof fn lemma_rwf(&self, b: Seq<u8>, e: int)
        requires 0 <= self.start < b.len(), b[self.start as int] == 62u8,
                 complete(b, self.start as int, self.seq_pos@, e) || eofrec(b, self.start as int, self.seq_pos@, e)
        ensures self.rwf(b)
    {
        let st = self.start as int;
        if complete(b, st, self.seq_pos@, e) {
            assert(lfs(b, st, e) == lfs(b, st, e - 1).push(e - 1));
            lemma_lfs_bounds(b, st, e - 1);
        } else {
            lemma_lfs_bounds(b, st, e);
        }
    }
//@fn fasta::BufferPosition::is_new ret=r tags=C05
//@spec
        ensures
            [C05|fasta.bufpos.is_new] r == (self.seq_pos@.len() == 0),
//@end
//@fn fasta::BufferPosition::reset tags=C05
//@spec
        ensures
            [C05|fasta.bufpos.reset] final(self).start == start && final(self).seq_pos@.len() == 0,
//@end
}

    // =============================================================================================
    // views of one record
    // =============================================================================================
    impl BufferPosition {
        /// offset list as ints
        spec fn l(&self) -> Seq<int> { spv(self.seq_pos@) }
        /// header without '>' and line terminator
        spec fn head_v(&self, b: Seq<u8>) -> Seq<u8> { trim(b.subrange(self.start + 1, self.l()[0])) }
        /// number of sequence lines
        spec fn nlines(&self) -> int { self.l().len() - 1 }
        /// i-th sequence line without terminator
        spec fn line_v(&self, b: Seq<u8>, i: int) -> Seq<u8> { trim(b.subrange(self.l()[i] + 1, self.l()[i + 1])) }
        spec fn lines_v(&self, b: Seq<u8>) -> Seq<Seq<u8>> { Seq::new(self.nlines() as nat, |i: int| self.line_v(b, i)) }
        /// what rwf gives about the offsets
        proof fn lemma_offsets(&self, b: Seq<u8>)
            requires self.rwf(b)
            ensures self.l().len() == self.seq_pos@.len(), self.seq_pos@.len() >= 1,
                    self.start < self.l()[0],
                    forall|i: int| 0 <= i < self.l().len() ==> self.l()[i] == #[trigger] self.seq_pos@[i] as int,
                    forall|i: int, j: int| 0 <= i < j < self.l().len() ==> #[trigger] self.l()[i] < #[trigger] self.l()[j],
                    forall|i: int| 0 <= i < self.l().len() ==> self.start < #[trigger] self.l()[i] <= b.len(),
                    forall|i: int| 0 <= i < self.l().len() - 1 ==> b[#[trigger] self.l()[i]] == 10u8,
        {
            let sp = self.l();
            let e = sp.last();
            lemma_lfs_bounds(b, self.start as int, e);
            let ls = lfs(b, self.start as int, e);
            assert forall|i: int| 0 <= i < sp.len() implies self.start < #[trigger] sp[i] <= b.len() by {
                if i < ls.len() { assert(sp[i] == ls[i]); assert(b[ls[i]] == 10u8); }
            }
            assert forall|i: int, j: int| 0 <= i < j < sp.len() implies #[trigger] sp[i] < #[trigger] sp[j] by {
                assert(sp[i] == ls[i]);
                if j < ls.len() { assert(sp[j] == ls[j]); }
            }
            assert forall|i: int| 0 <= i < sp.len() - 1 implies b[#[trigger] sp[i]] == 10u8 by { assert(sp[i] == ls[i]); }
        }
    }

    /// concatenation of byte strings
    pub open spec fn concat(ls: Seq<Seq<u8>>) -> Seq<u8>
        decreases ls.len()
    {
        if ls.len() == 0 { Seq::<u8>::empty() } else { concat(ls.drop_last()) + ls.last() }
    }

//@item fasta::SeqLines
    impl<'a> SeqLines<'a> {
        #[verifier::prophetic]
        spec fn rem(&self) -> Seq<(&'a usize, &'a usize)> { self.pos_iter.remaining() }
        /// byte view of the line between two stored offsets
        spec fn piece(&self, p: (&'a usize, &'a usize)) -> Seq<u8> { trim(self.data@.subrange(*p.0 + 1, *p.1 as int)) }
        #[verifier::prophetic]
        spec fn swf(&self) -> bool {
            &&& self.pos_iter.obeys_prophetic_iter_laws() && self.pos_iter.decrease() is Some
            &&& forall|i: int| 0 <= i < self.rem().len() ==> *(#[trigger] self.rem()[i]).0 + 1 <= *self.rem()[i].1 <= self.data@.len()
        }
        #[verifier::prophetic]
        spec fn views(&self) -> Seq<Seq<u8>> { Seq::new(self.rem().len(), |i: int| self.piece(self.rem()[i])) }
    }

//@impl_open fasta::Iterator for SeqLines::next
//@item fasta::Iterator for SeqLines::Item
    #[verifier::prophetic]
    spec fn it_pre(&self) -> bool { self.swf() }
    spec fn it_lawful(&self) -> bool { true }
    #[verifier::prophetic]
    spec fn it_views(&self) -> Seq<Seq<u8>> { self.views() }
    spec fn iv(x: &&'a [u8]) -> Seq<u8> { (*x)@ }
    spec fn it_dec(&self) -> nat { match self.pos_iter.decrease() { Some(n) => n as nat, None => 0 } }
//@fn fasta::Iterator for SeqLines::next ret=r tags=C20,C13,C12,C06
//@spec
        ensures
            [C20,C13|fasta.SeqLines.next.frame] final(self).data == old(self).data,
            [C20|fasta.SeqLines.next.exact_len] final(self).swf(),
            [C01,C10,C12,C13,C20|fasta.SeqLines.next.item_is_trimmed_line] old(self).swf() && old(self).views().len() > 0 ==> (r matches Some(x) && x@ == old(self).views()[0]),
//@tail vx_r
        proof {
            assert(old(self).rem().len() > 0 ==> self.views() =~= old(self).views().drop_first());
            assert(old(self).rem().len() == 0 ==> self.views() =~= Seq::<Seq<u8>>::empty());
            assert(vx_r is Some ==> old(self).pos_iter.decrease() is Some && self.pos_iter.decrease() is Some
                && self.pos_iter.decrease().unwrap() < old(self).pos_iter.decrease().unwrap());
        }
//@end
//@fn fasta::Iterator for SeqLines::size_hint ret=r tags=C20
//@spec
        ensures
            [C20|fasta.SeqLines.size_hint] r.0 == self.views().len() && r.1 == Some(self.views().len() as usize),
//@end
}

//@impl_open fasta::DoubleEndedIterator for SeqLines::next_back
//@fn fasta::DoubleEndedIterator for SeqLines::next_back ret=r tags=C20,C13,C12,C06
//@spec
        ensures
            [C20,C13|fasta.SeqLines.next_back.frame] final(self).data == old(self).data,
            [C20|fasta.SeqLines.next_back.exact_len] final(self).swf(),
            [C01,C10,C12,C13,C20|fasta.SeqLines.next_back.item_is_trimmed_line] old(self).swf() && old(self).views().len() > 0 ==> (r matches Some(x) && x@ == old(self).views().last()),
//@body_start
        proof {
            assert(self.rem().len() > 0 ==> *self.rem()[self.rem().len() - 1].0 + 1 <= *self.rem()[self.rem().len() - 1].1 <= self.data@.len());
        }
//@tail vx_r
        proof {
            assert(old(self).rem().len() > 0 ==> self.views() =~= old(self).views().drop_last());
            assert(old(self).rem().len() == 0 ==> self.views() =~= Seq::<Seq<u8>>::empty());
        }
//@end
}

//@impl_open fasta::ExactSizeIterator for SeqLines::len
//@fn fasta::ExactSizeIterator for SeqLines::len ret=r tags=C20
//@spec
        ensures
            [C20|fasta.SeqLines.len] r == self.views().len(),
//@end
}

    // ---- rendering specs (C10) -------------------------------------------------------------------------
    /// `> head LF`
    pub open spec fn fa_head_r(h: Seq<u8>) -> Seq<u8> { seq![62u8] + h + seq![10u8] }
    /// one record with the sequence on a single line
    pub open spec fn fa_render(h: Seq<u8>, sq: Seq<u8>) -> Seq<u8> { fa_head_r(h) + sq + seq![10u8] }
    /// the sequence cut into lines of w bytes (the last one 1..=w bytes), each followed by LF; nothing for an empty sequence
    pub open spec fn wrap_lines(sq: Seq<u8>, w: int) -> Seq<u8>
        decreases sq.len()
    {
        if w <= 0 || sq.len() == 0 { Seq::<u8>::empty() }
        else if sq.len() <= w { sq + seq![10u8] }
        else { sq.subrange(0, w) + seq![10u8] + wrap_lines(sq.subrange(w, sq.len() as int), w) }
    }
    /// what the iterator form writes: like wrap_lines, but a single empty line for an empty sequence
    pub open spec fn wrap_lines_iter(sq: Seq<u8>, w: int) -> Seq<u8> { if sq.len() == 0 { seq![10u8] } else { wrap_lines(sq, w) } }
    pub open spec fn fa_render_wrap(h: Seq<u8>, sq: Seq<u8>, w: int) -> Seq<u8> { fa_head_r(h) + wrap_lines_iter(sq, w) }
    /// LF inserted after every w bytes as long as more bytes follow (the bytes written before the final LF)
    pub open spec fn lazy_wrap(t: Seq<u8>, w: int) -> Seq<u8>
        decreases t.len()
    {
        if w <= 0 || t.len() <= w { t } else { t.subrange(0, w) + seq![10u8] + lazy_wrap(t.subrange(w, t.len() as int), w) }
    }
    /// number of bytes on the current (last) line
    pub open spec fn last_len(t: Seq<u8>, w: int) -> int
        decreases t.len()
    {
        if w <= 0 || t.len() <= w { t.len() as int } else { last_len(t.subrange(w, t.len() as int), w) }
    }
    pub proof fn lemma_last_len_bounds(t: Seq<u8>, w: int)
        requires w >= 1
        ensures 0 <= last_len(t, w) <= w, t.len() > 0 ==> last_len(t, w) >= 1, t.len() == 0 ==> last_len(t, w) == 0
        decreases t.len()
    {
        if t.len() > w { lemma_last_len_bounds(t.subrange(w, t.len() as int), w); }
    }
    /// more bytes that still fit on the current line
    pub proof fn lemma_lazy_append_fit(t: Seq<u8>, x: Seq<u8>, w: int)
        requires w >= 1, last_len(t, w) + x.len() <= w
        ensures lazy_wrap(t + x, w) == lazy_wrap(t, w) + x, last_len(t + x, w) == last_len(t, w) + x.len()
        decreases t.len()
    {
        if t.len() <= w {
            assert(lazy_wrap(t + x, w) == t + x);
        } else {
            let t2 = t.subrange(w, t.len() as int);
            lemma_lazy_append_fit(t2, x, w);
            assert((t + x).subrange(0, w) =~= t.subrange(0, w));
            assert((t + x).subrange(w, (t + x).len() as int) =~= t2 + x);
            assert(t.subrange(0, w) + seq![10u8] + (lazy_wrap(t2, w) + x) =~= (t.subrange(0, w) + seq![10u8] + lazy_wrap(t2, w)) + x);
        }
    }
    /// the current line is full: the next bytes start a new line
    pub proof fn lemma_lazy_append_full(t: Seq<u8>, x: Seq<u8>, w: int)
        requires w >= 1, last_len(t, w) == w, 1 <= x.len() <= w
        ensures lazy_wrap(t + x, w) == lazy_wrap(t, w) + seq![10u8] + x, last_len(t + x, w) == x.len()
        decreases t.len()
    {
        if t.len() <= w {
            assert(t.len() == w);
            assert((t + x).subrange(0, w) =~= t);
            assert((t + x).subrange(w, (t + x).len() as int) =~= x);
            assert(lazy_wrap(x, w) == x);
            assert(last_len(x, w) == x.len());
        } else {
            let t2 = t.subrange(w, t.len() as int);
            lemma_lazy_append_full(t2, x, w);
            assert((t + x).subrange(0, w) =~= t.subrange(0, w));
            assert((t + x).subrange(w, (t + x).len() as int) =~= t2 + x);
            assert(t.subrange(0, w) + seq![10u8] + (lazy_wrap(t2, w) + seq![10u8] + x) =~= (t.subrange(0, w) + seq![10u8] + lazy_wrap(t2, w)) + seq![10u8] + x);
        }
    }
    /// both cases at once (for callers that may not branch)
    pub proof fn lemma_lazy_step(t: Seq<u8>, x: Seq<u8>, w: int)
        requires w >= 1
        ensures last_len(t, w) + x.len() <= w ==> lazy_wrap(t + x, w) == lazy_wrap(t, w) + x && last_len(t + x, w) == last_len(t, w) + x.len(),
                last_len(t, w) == w && 1 <= x.len() <= w ==> lazy_wrap(t + x, w) == lazy_wrap(t, w) + seq![10u8] + x && last_len(t + x, w) == x.len(),
    {
        if last_len(t, w) + x.len() <= w { lemma_lazy_append_fit(t, x, w); }
        if last_len(t, w) == w && 1 <= x.len() <= w { lemma_lazy_append_full(t, x, w); }
    }
    /// closing the last line
    pub proof fn lemma_lazy_final(sq: Seq<u8>, w: int)
        requires w >= 1
        ensures lazy_wrap(sq, w) + seq![10u8] == wrap_lines_iter(sq, w)
        decreases sq.len()
    {
        if sq.len() == 0 {
            assert(lazy_wrap(sq, w) + seq![10u8] =~= seq![10u8]);
        } else if sq.len() <= w {
        } else {
            let s2 = sq.subrange(w, sq.len() as int);
            lemma_lazy_final(s2, w);
            assert((sq.subrange(0, w) + seq![10u8] + lazy_wrap(s2, w)) + seq![10u8] =~= sq.subrange(0, w) + seq![10u8] + (lazy_wrap(s2, w) + seq![10u8]));
        }
    }

    /// lines_v in terms of the pairs the line iterator walks over
    proof fn lemma_concat_push(ls: Seq<Seq<u8>>, x: Seq<u8>)
        ensures concat(ls.push(x)) == concat(ls) + x
    {
        assert(ls.push(x).drop_last() =~= ls);
    }

    // ---- C13: the raw sequence and the sequence lines differ only by line terminators -----------------------------------
    /// every LF of b in [i, j) is listed in lfs(b, i, j)
    proof fn lemma_lfs_complete(b: Seq<u8>, i: int, j: int, x: int)
        requires 0 <= i <= x < j <= b.len(), b[x] == 10u8
        ensures exists|k: int| 0 <= k < lfs(b, i, j).len() && #[trigger] lfs(b, i, j)[k] == x
        decreases j - i
    {
        if x == j - 1 {
            let k = lfs(b, i, j - 1).len() as int;
            assert(lfs(b, i, j)[k] == x);
        } else {
            lemma_lfs_complete(b, i, j - 1, x);
            let k = choose|k: int| 0 <= k < lfs(b, i, j - 1).len() && #[trigger] lfs(b, i, j - 1)[k] == x;
            assert(lfs(b, i, j)[k] == x);
        }
    }
    /// the pieces of s between LFs from offset i on, each without one trailing CR, concatenated
    pub open spec fn unwrap_lines(s: Seq<u8>, i: int) -> Seq<u8>
        decreases s.len() - i via unwrap_lines_dec
    {
        if i < 0 || i > s.len() { Seq::<u8>::empty() } else {
            let k = nl(s, i);
            trim(s.subrange(i, k)) + (if k < s.len() { unwrap_lines(s, k + 1) } else { Seq::<u8>::empty() })
        }
    }
    #[via_fn]
    proof fn unwrap_lines_dec(s: Seq<u8>, i: int) { if 0 <= i <= s.len() { lemma_nl_bounds(s, i); } }
    proof fn lemma_concat_cons(x: Seq<u8>, rest: Seq<Seq<u8>>)
        ensures concat(seq![x] + rest) == x + concat(rest)
        decreases rest.len()
    {
        let all = seq![x] + rest;
        if rest.len() == 0 {
            assert(all.drop_last() =~= Seq::<Seq<u8>>::empty());
            assert(concat(all) =~= x + concat(rest));
        } else {
            assert(all.drop_last() =~= seq![x] + rest.drop_last());
            lemma_concat_cons(x, rest.drop_last());
            assert(all.last() == rest.last());
            assert(concat(rest) == concat(rest.drop_last()) + rest.last());
            assert(concat(all) == concat(all.drop_last()) + all.last());
            assert(concat(all) =~= x + concat(rest));
        }
    }
    impl BufferPosition {
        /// the raw extent of the sequence: from the byte after the header line's LF to the end of the last line (seq() returns it trimmed)
        spec fn rawext_v(&self, b: Seq<u8>) -> Seq<u8> { b.subrange(self.l()[0] + 1, self.l().last()) }
        /// no LF strictly between two consecutive stored offsets
        proof fn lemma_no_lf_between(&self, b: Seq<u8>, i: int, x: int)
            requires self.rwf(b), 0 <= i < self.l().len() - 1, self.l()[i] < x < self.l()[i + 1]
            ensures b[x] != 10u8
        {
            self.lemma_offsets(b);
            let sp = self.l();
            let e = sp.last();
            let ls = lfs(b, self.start as int, e);
            lemma_lfs_bounds(b, self.start as int, e);
            if b[x] == 10u8 {
                lemma_lfs_complete(b, self.start as int, e, x);
                let k = choose|k: int| 0 <= k < ls.len() && #[trigger] ls[k] == x;
                assert(sp[k] == ls[k]);
                if k <= i { if k < i { assert(sp[k] < sp[i]); } } else { if k > i + 1 { assert(sp[i + 1] < sp[k]); } }
            }
        }
        /// from line j on: unwrapping the raw extent gives the concatenation of the remaining lines
        proof fn lemma_raw_from(&self, b: Seq<u8>, j: int)
            requires self.rwf(b), 0 <= j < self.nlines()
            ensures unwrap_lines(self.rawext_v(b), self.l()[j] - self.l()[0]) == concat(self.lines_v(b).subrange(j, self.nlines()))
            decreases self.nlines() - j
        {
            self.lemma_offsets(b);
            let sp = self.l();
            let n = self.nlines();
            let x = self.rawext_v(b);
            let base = sp[0] + 1;
            let i0 = sp[j] + 1 - base;            // start of line j inside x
            let i1 = sp[j + 1] - base;            // its end inside x
            assert forall|t: int| i0 <= t < i1 implies x[t] != 10u8 by { self.lemma_no_lf_between(b, j, base + t); }
            if j + 1 < n { assert(x[i1] == b[sp[j + 1]]); }
            lemma_nl_is(x, i0, i1);
            assert(x.subrange(i0, i1) =~= b.subrange(sp[j] + 1, sp[j + 1]));
            let rest = self.lines_v(b).subrange(j + 1, n);
            assert(self.lines_v(b).subrange(j, n) =~= seq![self.line_v(b, j)] + rest);
            lemma_concat_cons(self.line_v(b, j), rest);
            if j + 1 < n {
                self.lemma_raw_from(b, j + 1);
            } else {
                assert(rest =~= Seq::<Seq<u8>>::empty());
                assert(concat(rest) =~= Seq::<u8>::empty());
            }
        }
        /// C13: removing the line terminators from the raw sequence gives the concatenated sequence lines
        proof fn lemma_raw_vs_lines(&self, b: Seq<u8>)
            requires self.rwf(b), self.nlines() >= 1
            ensures
                [C13|lemma.fasta.raw_sequence_differs_from_lines_only_by_terminators] unwrap_lines(self.rawext_v(b), 0) == concat(self.lines_v(b)),
        {
            self.lemma_raw_from(b, 0);
            assert(self.lines_v(b).subrange(0, self.nlines()) =~= self.lines_v(b));
        }
    }

//@impl_open fasta::Record::head
    spec fn rwf(&self) -> bool;
    spec fn head_s(&self) -> Seq<u8>;
    /// the sequence without any line terminators
    spec fn seq_s(&self) -> Seq<u8>;
    /// what `seq()` returns: for borrowed records the raw extent between the first and the last line end
    spec fn rawseq_s(&self) -> Seq<u8>;
//@sig fasta::Record::head ret=r tags=C13
//@spec
        requires self.rwf(),
        ensures
            [C13,C12,C01|fasta.Record.head] r@ == self.head_s(),
//@end
//@sig fasta::Record::seq ret=r tags=C13
//@spec
        requires self.rwf(),
        ensures
            [C13|fasta.Record.seq] r@ == self.rawseq_s(),
//@end
//@sig fasta::Record::write ret=r tags=C10
//@spec
        requires self.rwf(),
        ensures
            [C10|fasta.Record.write] r is Ok ==> writer.fin() == writer.written() + fa_render(self.head_s(), self.seq_s()),
//@end
//@sig fasta::Record::write_wrap ret=r tags=C10
//@spec
        requires self.rwf(), wrap > 0,
        ensures
            [C10|fasta.Record.write_wrap] r is Ok && self.seq_s().len() > 0 ==> writer.fin() == writer.written() + fa_head_r(self.head_s()) + wrap_lines(self.seq_s(), wrap as int),
//@end
}

    /// Shadow of `trait Record` without implementors (same tool quirk as for FASTQ): the default methods are verified
    /// here, for an arbitrary implementor that meets the contract of `head()`.
trait RecordD {
    spec fn rwf(&self) -> bool;
    spec fn head_s(&self) -> Seq<u8>;
//@sig fasta::Record::head ret=r tags=C13 as=fasta::RecordD::head
//@spec
        requires self.rwf(),
        ensures
            r@ == self.head_s(),
//@end

//@fn fasta::Record::id_bytes ret=r tags=C13,C06
//@spec
        requires self.rwf(),
        ensures
            [C13|fasta.Record.id_bytes] r@ == id_of(self.head_s()),
//@body_start
        broadcast use lemma_split_cut, lemma_split_cut2;
//@closure 0 params="b: &u8" ret="(r: bool)"
            ensures r == (*b == 32u8)
//@end

//@fn fasta::Record::id ret=r tags=C13
//@spec
        requires self.rwf(),
        ensures
            [C13|fasta.Record.id] (r is Ok <==> valid_utf8(id_of(self.head_s()))) && (r matches Ok(t) ==> str_bytes(t) == id_of(self.head_s())),
//@end

//@fn fasta::Record::desc_bytes ret=r tags=C13,C06
//@spec
        requires self.rwf(),
        ensures
            [C13|fasta.Record.desc_bytes] (r matches Some(d) ==> desc_of(self.head_s()) == Some(d@)) && (r is None ==> desc_of(self.head_s()) is None),
//@body_start
        broadcast use lemma_split_cut, lemma_split_cut2;
//@closure 0 params="b: &u8" ret="(r: bool)"
            ensures r == (*b == 32u8)
//@end

//@fn fasta::Record::desc ret=r tags=C13
//@spec
        requires self.rwf(),
        ensures
            [C13|fasta.Record.desc] (r is None <==> desc_of(self.head_s()) is None)
                && (r matches Some(x) ==> (x is Ok <==> valid_utf8(desc_of(self.head_s()).unwrap())) && (x matches Ok(t) ==> str_bytes(t) == desc_of(self.head_s()).unwrap())),
//@end

//@fn fasta::Record::id_desc ret=r tags=C13,C06
//@spec
        requires self.rwf(),
        ensures
            [C13|fasta.Record.id_desc.ok_iff_header_utf8] r is Ok <==> valid_utf8(self.head_s()),
            [C13|fasta.Record.id_desc] r matches Ok(p) ==> str_bytes(p.0) == id_of(self.head_s())
                && (p.1 matches Some(d) ==> desc_of(self.head_s()) == Some(str_bytes(d))) && (p.1 is None ==> desc_of(self.head_s()) is None),
//@end

//@fn fasta::Record::id_desc_bytes ret=r tags=C13,C06
//@spec
        requires self.rwf(),
        ensures
            [C13|fasta.Record.id_desc_bytes] r.0@ == id_of(self.head_s())
                && (r.1 matches Some(d) ==> desc_of(self.head_s()) == Some(d@)) && (r.1 is None ==> desc_of(self.head_s()) is None),
//@body_start
        broadcast use lemma_split_cut, lemma_split_cut2;
//@closure 0 params="c: &u8" ret="(r: bool)"
            ensures r == (*c == 32u8)
//@end
}

//@impl_open fasta::RefRecord::seq_lines
    spec fn rwf(&self) -> bool { self.buf_pos.rwf(self.buffer@) }
    spec fn head_v(&self) -> Seq<u8> { self.buf_pos.head_v(self.buffer@) }
    spec fn lines_v(&self) -> Seq<Seq<u8>> { self.buf_pos.lines_v(self.buffer@) }

//@fn fasta::RefRecord::seq_lines ret=r tags=C13,C20,C12,C01,C06
//@spec
        requires
            self.rwf(),
        ensures
            [C13,C20,C01|fasta.seq_lines.yields_all_lines_in_order] r.swf() && r.views() == self.lines_v() && r.data@ == self.buffer@,
//@body_start
        proof { self.buf_pos.lemma_offsets(self.buffer@); }
//@tail vx_r
        proof {
            let n = self.buf_pos.seq_pos@.len();
            assert(vx_r.rem().len() == n - 1);
            assert forall|i: int| 0 <= i < n - 1 implies *(#[trigger] vx_r.rem()[i]).0 == self.buf_pos.seq_pos@[i] && *vx_r.rem()[i].1 == self.buf_pos.seq_pos@[i + 1] by { }
            assert(vx_r.views() =~= self.lines_v());
        }
//@end

//@fn fasta::RefRecord::num_seq_lines ret=r tags=C13,C20
//@spec
        requires
            self.rwf(),
        ensures
            [C13,C20|fasta.num_seq_lines] r == self.lines_v().len(),
//@end

//@fn fasta::RefRecord::owned_seq ret=r tags=C13,C04
//@local seq ord=0 kind=letmut
//@local segment ord=1 kind=for
//@spec
        requires
            self.rwf(),
        ensures
            [C01,C04,C12,C13|fasta.owned_seq.is_concatenation_of_lines] r@ == concat(self.lines_v()),
//@loop 0 r8=vx_it
            invariant
                vx_it.swf() && vx_it.data@ == self.buffer@,
                vx_it.views().len() <= self.lines_v().len(),
                vx_it.views() =~= self.lines_v().subrange(self.lines_v().len() - vx_it.views().len(), self.lines_v().len() as int),
                [C13|fasta.owned_seq.inv.prefix_copied] seq@ == concat(self.lines_v().subrange(0, self.lines_v().len() - vx_it.views().len())),
            ensures
                seq@ == concat(self.lines_v()),
            decreases vx_it.it_dec(),
//---pre
            let ghost k0 = self.lines_v().len() - vx_it.views().len();
            proof { assert(self.lines_v().subrange(0, self.lines_v().len() as int) =~= self.lines_v()); }
//@at depth=2 kw=seq nth=0 expect="seq\.extend\(" unique=1
            proof {
                broadcast use axiom_ref_items_slice;
                let ls = self.lines_v();
                assert(ls.subrange(0, k0 + 1) =~= ls.subrange(0, k0).push(ls[k0]));
                lemma_concat_push(ls.subrange(0, k0), ls[k0]);
            }
//@end

//@fn fasta::RefRecord::full_seq ret=r tags=C13
//@spec
        requires
            self.rwf(),
        ensures
            [C13|fasta.full_seq.borrowed_iff_single_line] cow_borrowed(r) == (self.lines_v().len() == 1),
            [C13|fasta.full_seq.is_concatenation_of_lines] cow_bytes(r) == concat(self.lines_v()),
//@body_start
        proof {
            self.buf_pos.lemma_offsets(self.buffer@);
            if self.lines_v().len() == 1 {
                assert(self.lines_v() =~= seq![self.lines_v()[0]]);
                assert(concat(self.lines_v()) =~= self.lines_v()[0]) by {
                    assert(self.lines_v().drop_last() =~= Seq::<Seq<u8>>::empty());
                    assert(concat(Seq::<Seq<u8>>::empty()) =~= Seq::<u8>::empty());
                }
            }
        }
//@end

//@fn fasta::RefRecord::to_owned_record ret=r tags=C13,C04
//@spec
        requires
            self.rwf(),
        ensures
            [C01,C04,C12,C13|fasta.to_owned_record] r.head@ == self.head_v() && r.seq@ == concat(self.lines_v()),
//@end

//@fn fasta::RefRecord::write_unchanged ret=r tags=C11
//@local data ord=0 kind=let
//@spec
        requires
            self.rwf(),
        ensures
            [C11|fasta.write_unchanged] r is Ok ==> ({
                let raw = self.buffer@.subrange(self.buf_pos.start as int, self.buf_pos.l().last());
                writer.fin() == writer.written() + raw + (if raw.last() != 10u8 { seq![10u8] } else { Seq::<u8>::empty() }) }),
//@body_start
        broadcast use io::resolve_law_b;
        proof { self.buf_pos.lemma_offsets(self.buffer@); }
//@end
}

//@impl_open fasta::Record for RefRecord::head
    spec fn rwf(&self) -> bool { self.buf_pos.rwf(self.buffer@) }
    spec fn head_s(&self) -> Seq<u8> { self.head_v() }
    spec fn seq_s(&self) -> Seq<u8> { concat(self.lines_v()) }
    spec fn rawseq_s(&self) -> Seq<u8> {
        if self.buf_pos.l().len() > 1 { trim(self.buffer@.subrange(self.buf_pos.l()[0] + 1, self.buf_pos.l().last())) } else { Seq::<u8>::empty() }
    }
//@fn fasta::Record for RefRecord::head ret=r tags=C13,C12,C01,C06
//@body_start
        proof { self.buf_pos.lemma_offsets(self.buffer@); }
//@end
//@fn fasta::Record for RefRecord::seq ret=r tags=C13,C06
//@body_start
        proof { self.buf_pos.lemma_offsets(self.buffer@); }
//@end
//@fn fasta::Record for RefRecord::write ret=r tags=C10,C13
//@body_start
        broadcast use io::resolve_law_b, io::axiom_lend_keeps_fin;
//@tail vx_r
        proof { }
//@end
//@fn fasta::Record for RefRecord::write_wrap ret=r tags=C10,C13
//@spec
        ensures
            [C10|fasta.RefRecord.write_wrap] r is Ok ==> writer.fin() == writer.written() + fa_render_wrap(self.head_s(), self.seq_s(), wrap as int),
//@body_start
        broadcast use io::resolve_law_b, io::axiom_lend_keeps_fin;
//@tail vx_r
        proof { }
//@end
}

//@item fasta::OwnedRecord vis=keep
//@impl_open fasta::Record for OwnedRecord::head
    spec fn rwf(&self) -> bool { true }
    spec fn head_s(&self) -> Seq<u8> { self.head@ }
    spec fn seq_s(&self) -> Seq<u8> { self.seq@ }
    spec fn rawseq_s(&self) -> Seq<u8> { self.seq@ }
//@fn fasta::Record for OwnedRecord::head ret=r tags=C13
//@end
//@fn fasta::Record for OwnedRecord::seq ret=r tags=C13
//@end
//@fn fasta::Record for OwnedRecord::write ret=r tags=C10
//@end
//@fn fasta::Record for OwnedRecord::write_wrap ret=r tags=C10
//@spec
        ensures
            [C10|fasta.OwnedRecord.write_wrap] r is Ok ==> writer.fin() == writer.written() + fa_head_r(self.head@) + wrap_lines(self.seq@, wrap as int),
//@body_start
        broadcast use io::resolve_law_b, io::axiom_lend_keeps_fin;
//@tail vx_r
        proof { }
//@end
}

    // =============================================================================================
    // record sets
    // =============================================================================================
    /// position of the '>' starting the record that follows the one being scanned from i on; |f| if there is none
    pub open spec fn fa_bnd(f: Seq<u8>, i: int) -> int
        decreases f.len() - i via fa_bnd_dec
    {
        if i < 0 || i >= f.len() { f.len() as int } else {
            let k = nl(f, i);
            if k + 1 >= f.len() { f.len() as int } else if f[k + 1] == 62u8 { k + 1 } else { fa_bnd(f, k + 1) }
        }
    }
    #[via_fn]
    proof fn fa_bnd_dec(f: Seq<u8>, i: int) { if 0 <= i <= f.len() { lemma_nl_bounds(f, i); } }
    /// start of the i-th record counting from the record at p
    pub open spec fn fa_start(f: Seq<u8>, p: int, i: int) -> int
        decreases i
    {
        if i <= 0 { p } else { fa_bnd(f, fa_start(f, p, i - 1)) }
    }
    /// the record starting at p does not fit into a buffer of cap bytes (no record boundary within its first cap - 1 bytes)
    pub open spec fn fa_nofit(f: Seq<u8>, p: int, cap: int) -> bool { no_bnd(f, p, p + cap - 1) }
    /// the line-end offsets of the record starting at p, as the format rules define them
    pub open spec fn fa_lines(f: Seq<u8>, p: int) -> Seq<int> {
        let q = fa_bnd(f, p);
        if q < f.len() { lfs(f, p, q) } else {
            let e = if f.len() > 0 && f[f.len() - 1] == 10u8 { f.len() - 1 } else { f.len() as int };
            lfs(f, p, e).push(e)
        }
    }
    proof fn lemma_bnd_scan(f: Seq<u8>, i: int, e: int)
        requires 0 <= i <= e - 1, e < f.len(), f[e - 1] == 10u8, f[e] == 62u8, no_bnd(f, i, e - 1)
        ensures fa_bnd(f, i) == e
        decreases e - i
    {
        lemma_nl_bounds(f, i);
        let k = nl(f, i);
        if k < e - 1 {
            assert(f[k] == 10u8);
            lemma_bnd_scan(f, k + 1, e);
        }
    }
    proof fn lemma_bnd_eof(f: Seq<u8>, i: int, e: int)
        requires 0 <= i <= e <= f.len(), at_end(f, e), no_bnd(f, i, e)
        ensures fa_bnd(f, i) == f.len()
        decreases e - i
    {
        if i < f.len() {
            lemma_nl_bounds(f, i);
            let k = nl(f, i);
            if k + 1 < f.len() {
                assert(k < e);
                assert(f[k] == 10u8);
                lemma_bnd_eof(f, k + 1, e);
            }
        }
    }
    /// a record found complete / as the last one in the window has exactly the offsets the rules define
    proof fn lemma_lines_complete(f: Seq<u8>, p: int, l: Seq<int>, e: int)
        requires complete_l(f, p, l, e)
        ensures fa_bnd(f, p) == e, fa_lines(f, p) == l
    { lemma_bnd_scan(f, p, e); }
    proof fn lemma_lines_eof(f: Seq<u8>, p: int, l: Seq<int>, e: int)
        requires eofrec_l(f, p, l, e)
        ensures fa_bnd(f, p) == f.len(), fa_lines(f, p) == l
    { lemma_bnd_eof(f, p, e); }

    /// header and sequence lines of the record that starts at p, as the format rules define them (file level, terminators removed)
    pub open spec fn fa_rec_head(f: Seq<u8>, p: int) -> Seq<u8> { trim(f.subrange(p + 1, fa_lines(f, p)[0])) }
    pub open spec fn fa_rec_lines(f: Seq<u8>, p: int) -> Seq<Seq<u8>> {
        let ls = fa_lines(f, p);
        Seq::new((ls.len() - 1) as nat, |i: int| trim(f.subrange(ls[i] + 1, ls[i + 1])))
    }
    /// the views of a record held in a window of the file are the file-level ones
    proof fn lemma_views_lift(f: Seq<u8>, a: int, w: Seq<u8>, bp: &BufferPosition)
        requires 0 <= a, a + w.len() <= f.len(), w == f.subrange(a, a + w.len()), bp.rwf(w), shl(bp.l(), a) == fa_lines(f, a + bp.start)
        ensures bp.head_v(w) == fa_rec_head(f, a + bp.start), bp.lines_v(w) == fa_rec_lines(f, a + bp.start)
    {
        bp.lemma_offsets(w);
        let l = bp.l();
        let ls = fa_lines(f, a + bp.start);
        assert(ls.len() == l.len());
        assert forall|i: int| 0 <= i < l.len() implies #[trigger] ls[i] == l[i] + a by { assert(shl(l, a)[i] == l[i] + a); }
        assert(w.subrange(bp.start + 1, l[0]) =~= f.subrange(a + bp.start + 1, ls[0]));
        assert forall|i: int| 0 <= i < l.len() - 1 implies #[trigger] bp.line_v(w, i) == trim(f.subrange(ls[i] + 1, ls[i + 1])) by {
            assert(l[i] < l[i + 1]);
            assert(w.subrange(l[i] + 1, l[i + 1]) =~= f.subrange(ls[i] + 1, ls[i + 1]));
        }
        assert(bp.lines_v(w) =~= fa_rec_lines(f, a + bp.start));
    }

//@item fasta::RecordSet attrs="#[derive(Default)]"
    impl RecordSet {
        spec fn n(&self) -> int { self.npos as int }
        spec fn wf(&self) -> bool {
            self.npos <= self.positions@.len()
            && forall|i: int| 0 <= i < self.npos ==> (#[trigger] self.positions@[i]).rwf(self.buffer@)
        }
    }
//@impl_open fasta::RecordSet::len
//@fn fasta::RecordSet::len ret=r tags=C04,C20
//@spec
        ensures
            [C04,C20|fasta.RecordSet.len] r == self.n(),
//@end
//@fn fasta::RecordSet::is_empty ret=r tags=C04
//@spec
        ensures
            [C04|fasta.RecordSet.is_empty] r == (self.n() == 0),
//@end
//@fn fasta::RecordSet::shrink_buffer_to_fit tags=C04,C06
//@spec
        requires old(self).wf(),
        ensures
            [C04,C06|fasta.RecordSet.shrink_keeps_the_set] final(self).wf() && final(self).buffer@ == old(self).buffer@ && final(self).positions == old(self).positions
                && final(self).n() == old(self).n(),
//@end
}

//@impl_open fasta::BufferPosition::update
//@fn fasta::BufferPosition::update tags=C04,C06
//@spec
        ensures
            [C04|fasta.bufpos.update] final(self).same_as(other),
//@body_start
        broadcast use axiom_ref_items_vec;
//@end
}

    /// every collected position is a complete record of b; all but possibly the last end before the end of b
    #[verifier::opaque]
    spec fn ps_valid(ps: Seq<BufferPosition>, k: int, b: Seq<u8>, last_open: bool) -> bool {
        k <= ps.len() && forall|i: int| 0 <= i < k ==> (#[trigger] ps[i]).rwf(b) && (ps[i].l().last() < b.len() || (i == k - 1 && last_open))
    }
    /// the i-th collected position is the i-th record of the file counted from p0 (window of f starting at a)
    #[verifier::opaque]
    spec fn ps_lifted(ps: Seq<BufferPosition>, k: int, a: int, f: Seq<u8>, p0: int) -> bool {
        k <= ps.len() && forall|i: int| 0 <= i < k ==> a + (#[trigger] ps[i]).start == fa_start(f, p0, i) && shl(ps[i].l(), a) == fa_lines(f, fa_start(f, p0, i))
    }
    proof fn lemma_rwf_prefix(bp: BufferPosition, b: Seq<u8>, b2: Seq<u8>)
        requires bp.rwf(b), bp.l().last() < b.len(), b.len() <= b2.len(), b2.subrange(0, b.len() as int) == b
        ensures bp.rwf(b2)
    {
        let e = bp.l().last();
        assert(b == b2.subrange(0, b.len() as int));
        lemma_lfs_window(b2, 0, b, bp.start as int, e);
        assert(shl(lfs(b, bp.start as int, e), 0) =~= lfs(b, bp.start as int, e));
        assert(b[bp.start as int] == b2[bp.start as int]);
    }
    proof fn lemma_ps_prefix(ps: Seq<BufferPosition>, k: int, b0: Seq<u8>, b: Seq<u8>)
        requires ps_valid(ps, k, b0, false), b0.len() <= b.len(), b.subrange(0, b0.len() as int) == b0
        ensures ps_valid(ps, k, b, false)
    {
        reveal(ps_valid);
        assert forall|i: int| 0 <= i < k implies (#[trigger] ps[i]).rwf(b) && ps[i].l().last() < b.len() by { lemma_rwf_prefix(ps[i], b0, b); }
    }

    proof fn lemma_ps_empty(ps: Seq<BufferPosition>, b: Seq<u8>, a: int, f: Seq<u8>, p0: int, open: bool)
        ensures ps_valid(ps, 0, b, open), ps_lifted(ps, 0, a, f, p0)
    { reveal(ps_valid); reveal(ps_lifted); }
    /// one more record (stored at index k, by update or push): the record at the cursor, complete in the window [a, a+|b|) of f
    proof fn lemma_ps_put(ps: Seq<BufferPosition>, ps2: Seq<BufferPosition>, k: int, bp: BufferPosition, e: int, b: Seq<u8>, a: int, f: Seq<u8>, p0: int, open: bool, lifted: bool)
        requires ps_valid(ps, k, b, false), 0 <= k < ps2.len(), ps2[k].same_as(&bp),
                 forall|i: int| 0 <= i < k ==> ps2[i] == ps[i],
                 0 <= bp.start < b.len(), b[bp.start as int] == 62u8,
                 (complete(b, bp.start as int, bp.seq_pos@, e) && !open) || (eofrec(b, bp.start as int, bp.seq_pos@, e) && open),
                 0 <= a, a + b.len() <= f.len(), b == f.subrange(a, a + b.len()),
                 lifted ==> ps_lifted(ps, k, a, f, p0) && a + bp.start == fa_start(f, p0, k) && (open ==> a + b.len() == f.len()),
        ensures ps_valid(ps2, k + 1, b, open),
                lifted ==> ps_lifted(ps2, k + 1, a, f, p0) && fa_start(f, p0, k + 1) == (if open { f.len() as int } else { a + e }),
    {
        reveal(ps_valid); reveal(ps_lifted);
        bp.lemma_rwf(b, e);
        assert(ps2[k].l() == bp.l());
        assert(ps2[k].rwf(b));
        if !open { assert(lfs(b, bp.start as int, e) == lfs(b, bp.start as int, e - 1).push(e - 1)); }
        if lifted {
            lemma_rec_lift(f, a, b, bp.start as int, bp.l(), e);
            if open { lemma_lines_eof(f, a + bp.start, shl(bp.l(), a), a + e); }
            else { lemma_lines_complete(f, a + bp.start, shl(bp.l(), a), a + e); }
            assert(fa_start(f, p0, k + 1) == fa_bnd(f, fa_start(f, p0, k)));
        }
    }

//@impl_open fasta::Reader::read_record_set_exact
    spec fn rs_a(&self, o: &Self, rset: &RecordSet, n_records: Option<usize>) -> bool {
        let k = rset.n();
        &&& self.wf0() && self.buf_reader.cap() >= 2 && self.filled() && self.f() == o.f() && self.buf_reader.errs() == o.buf_reader.errs()
        &&& (self.state == State::Positioned || self.state == State::Incomplete || self.state == State::Finished)
        &&& self.position.byte == self.gpos() && self.buf_pos.start <= self.search_pos <= self.b().len()
        &&& (self.state != State::Finished ==> self.buf_pos.start < self.b().len() && self.b()[self.buf_pos.start as int] == 62u8 && self.coords()
                && partial(self.b(), self.buf_pos.start as int, self.buf_pos.seq_pos@, self.search_pos as int))
        &&& (self.state == State::Positioned ==> self.buf_pos.seq_pos@.len() == 0)
        &&& (self.state == State::Incomplete ==> (self.clean() ==> at_end(self.b(), self.search_pos as int) && self.b().len() == self.buf_reader.cap()))
        &&& (n_records matches Some(m) ==> k <= m)
        &&& k <= rset.positions@.len()
        &&& (self.state == State::Finished ==> k >= 1)
    }
    spec fn rs_b(&self, rset: &RecordSet) -> bool { ps_valid(rset.positions@, rset.n(), self.b(), self.state == State::Finished) }
    spec fn rs_c(&self, o: &Self, rset: &RecordSet) -> bool {
        o.clean() ==> {
            &&& ps_lifted(rset.positions@, rset.n(), self.base(), self.f(), o.cursor())
            &&& (self.state != State::Finished ==> self.gpos() == fa_start(self.f(), o.cursor(), rset.n()))
            &&& (self.state == State::Finished ==> fa_start(self.f(), o.cursor(), rset.n()) == self.f().len())
        }
    }

//@fn fasta::Reader::read_record_set_exact ret=r tags=C04,C03,C05,C06,C09,C14
//@local is_new ord=0 kind=letmut
//@local found ord=1 kind=let
//@spec
        requires
            old(self).wf(), old(rset).wf(),
            n_records != Some(0usize),
        ensures
            [C03,C04,C05,C06|fasta.read_set.wf] final(self).wf() && final(self).f() == old(self).f() && final(rset).wf(),
            [C03,C04|fasta.read_set.ok] r matches Some(Ok(_)) ==> final(rset).n() >= 1 && final(self).buf_reader.errs() == old(self).buf_reader.errs()
                && old(self).state != State::Finished && final(rset).buffer@ == final(self).b()
                && (n_records matches Some(m) ==> final(rset).n() <= m)
                && (old(self).clean() ==> ({
                    let (ff, p0, k) = (old(self).f(), old(self).cursor(), final(rset).n());
                    &&& forall|i: int| 0 <= i < k ==> final(self).base() + (#[trigger] final(rset).positions@[i]).start == fa_start(ff, p0, i)
                            && shl(final(rset).positions@[i].l(), final(self).base()) == fa_lines(ff, fa_start(ff, p0, i))
                    &&& (final(self).state != State::Finished ==> final(self).cursor() == fa_start(ff, p0, k))
                    &&& (final(self).state == State::Finished ==> fa_start(ff, p0, k) == ff.len())
                    &&& (n_records matches Some(m) ==> k == m || final(self).state == State::Finished)
                })),
            [C03,C05|fasta.read_set.position] r matches Some(Ok(_)) && old(self).clean() && final(self).state != State::Finished ==>
                final(self).position.byte == fa_start(old(self).f(), old(self).cursor(), final(rset).n())
                && final(self).position.line == true_line(old(self).f(), final(self).position.byte as int),
            [C03,C04,C06|fasta.read_set.none] r is None ==> final(self).buf_reader.errs() == old(self).buf_reader.errs() && final(self).state == State::Finished
                && (old(self).state == State::Finished || (old(self).state == State::New
                    && (old(self).fresh() ==> first_nonblank(old(self).f(), 0) == old(self).f().len()))),
            [C14|fasta.read_set.err_io] r matches Some(Err(e)) ==> (e matches Error::Io(x) ==> final(self).buf_reader.errs() == old(self).buf_reader.errs().push(x)),
            [C09|fasta.read_set.err_limit] r matches Some(Err(e)) ==> (e is BufferLimit ==> final(self).buf_reader.errs() == old(self).buf_reader.errs()),
            [C03,C17|fasta.read_set.err_start] r matches Some(Err(e)) ==> (e matches Error::InvalidStart { line, found } ==> old(self).state == State::New
                        && ({ let s0 = first_nonblank(old(self).f(), 0);
                            s0 < old(self).f().len() && old(self).f()[s0] != 62u8 && found == old(self).f()[s0] && line == true_line(old(self).f(), s0) })),
            [C14|fasta.read_set.source_errors_are_not_swallowed] (r is None || r matches Some(Ok(_))) ==> final(self).buf_reader.errs() == old(self).buf_reader.errs(),
            [C09|fasta.read_set.capacity_monotone] final(self).buf_reader.cap() >= old(self).buf_reader.cap(),
            [C03,C09|fasta.read_set.plain_sets_grow_only_when_a_record_does_not_fit] n_records is None && old(self).clean()
                && final(self).buf_reader.cap() > old(self).buf_reader.cap() ==>
                exists|j: int| 0 <= j && #[trigger] fa_nofit(old(self).f(), fa_start(old(self).f(), old(self).cursor(), j), old(self).buf_reader.cap() as int),
//@body_start
        proof {
            lemma_count_lf_mono(self.f(), 0, self.position.byte as int);
            if self.state == State::Parsing {
                let (ff, a, bb, st, e) = (self.f(), self.base(), self.b(), self.buf_pos.start as int, self.search_pos as int);
                lemma_lfs_bounds(bb, st, e);
                lemma_lfs_window(ff, a, bb, st, e);
                lemma_count_lfs(ff, a + st, a + e);
                lemma_count_lf_mono(ff, 0, a + e);
                assert(spv(self.buf_pos.seq_pos@).len() == self.buf_pos.seq_pos@.len());
                lemma_rec_lift(ff, a, bb, st, spv(self.buf_pos.seq_pos@), e);
                lemma_lines_complete(ff, a + st, shl(spv(self.buf_pos.seq_pos@), a), a + e);
            }
        }
//@at depth=1 kw=let nth=0 expect="let mut \w+ = \w+;" unique=1
        let ghost mut grow_at: int = -1;
        proof {
            lemma_ps_empty(rset.positions@, self.b(), self.base(), self.f(), old(self).cursor(), self.state == State::Finished);
            if self.state == State::Positioned {
                let (bb, st, sp) = (self.b(), self.buf_pos.start as int, self.search_pos as int);
                assert(lfs(bb, st, st) =~= Seq::<int>::empty());
                assert(lfs(bb, st, st + 1) =~= Seq::<int>::empty());
                assert(spv(self.buf_pos.seq_pos@) =~= Seq::<int>::empty());
            }
        }
//@loop 0 kw=while
            invariant_except_break
                [C04|fasta.read_set.inv.below_requested_count] n_records matches Some(m) ==> rset.n() < m,
                [C04,C06|fasta.read_set.inv.no_compaction_once_a_record_is_held] self.state == State::Incomplete && rset.n() > 0 ==> !is_new,
            invariant
                [C14|fasta.read_set.inv.no_source_error_so_far] self.buf_reader.errs() == old(self).buf_reader.errs(),
                [C03,C04,C05,C06|fasta.read_set.inv.state] self.rs_a(old(self), rset, n_records),
                [C03,C04,C06|fasta.read_set.inv.positions_valid] self.rs_b(rset),
                [C03,C04|fasta.read_set.inv.records_are_the_next_k] self.rs_c(old(self), rset),
                n_records != Some(0usize), old(self).state != State::Finished,
                [C09|fasta.read_set.inv.capacity] self.buf_reader.cap() >= old(self).buf_reader.cap() && (n_records is None ==> is_new)
                    && (n_records is None && old(self).clean() && self.buf_reader.cap() > old(self).buf_reader.cap() ==>
                        0 <= grow_at && fa_nofit(old(self).f(), fa_start(old(self).f(), old(self).cursor(), grow_at), old(self).buf_reader.cap() as int)),
            ensures
                [C03,C04|fasta.read_set.loop_exit_nonempty] rset.n() >= 1,
                [C03,C04|fasta.read_set.loop_exit_exact_or_end] n_records matches Some(m) ==> rset.n() == m || self.state == State::Finished,
            decreases
                self.f().len() + 2 - self.gpos(),
                (if self.state == State::Incomplete { 0int } else { 1int }),
//@at depth=2 kw=if nth=0 expect="if self\.state == State::Incomplete" unique=1
            let ghost b0 = self.b();
            let ghost k0 = rset.n();
            let ghost ps0 = rset.positions@;
            let ghost cap_before = self.buf_reader.cap();
            proof { lemma_count_lf_mono(self.f(), 0, self.position.byte as int); }
//@after /Err\(e\) => \{/ nth=0 optional=1
                        proof { if self.buf_reader.cap() > cap_before && n_records is None && old(self).clean() {
                                grow_at = k0;
                                assert(fa_nofit(old(self).f(), fa_start(old(self).f(), old(self).cursor(), k0), old(self).buf_reader.cap() as int));
                            } }
//@at depth=3 kw=if nth=1 expect="if !\w+ \{" unique=1
                proof { if self.buf_reader.cap() > cap_before && n_records is None && old(self).clean() {
                        grow_at = k0;
                        assert(fa_nofit(old(self).f(), fa_start(old(self).f(), old(self).cursor(), k0), old(self).buf_reader.cap() as int));
                    } }
//@at depth=2 kw=if nth=1 expect="if let Some\(\w+\) = rset\.positions\.get_mut\(" unique=1
            let ghost open = self.state == State::Finished;
            proof {
                if k0 > 0 {
                    assert(self.b().subrange(0, b0.len() as int) =~= b0);
                    lemma_ps_prefix(ps0, k0, b0, self.b());
                } else {
                    lemma_ps_empty(ps0, self.b(), self.base(), self.f(), old(self).cursor(), false);
                }
            }
//@at depth=2 kw=rset nth=0 expect="rset\.npos \+= 1;" unique=1
            proof {
                let (ff, a, bb, st, e) = (self.f(), self.base(), self.b(), self.buf_pos.start as int, self.search_pos as int);
                assert(k0 < rset.positions@.len());
                assert(rset.positions@.len() <= usize::MAX) by { vstd::std_specs::vec::axiom_spec_len(&rset.positions); }
                lemma_ps_put(ps0, rset.positions@, k0, self.buf_pos, e, bb, a, ff, old(self).cursor(), open, old(self).clean());
                lemma_lfs_bounds(bb, st, e);
                lemma_count_lf_mono(ff, 0, self.position.byte as int);
                assert(spv(self.buf_pos.seq_pos@).len() == self.buf_pos.seq_pos@.len());
                assert(lfs(bb, e, e) =~= Seq::<int>::empty());
                if !open {
                    lemma_lfs_window(ff, a, bb, st, e);
                    lemma_count_lfs(ff, a + st, a + e);
                    lemma_count_lf_mono(ff, 0, a + e);
                    assert(spv(self.buf_pos.seq_pos@).len() == self.buf_pos.seq_pos@.len());
                }
            }
//@at depth=2 kw=if nth=2 expect="if let Some\(\w+\) = n_records"
            proof {
                assert(spv(self.buf_pos.seq_pos@) =~= Seq::<int>::empty());
                assert(lfs(self.b(), self.buf_pos.start as int, self.buf_pos.start as int) =~= Seq::<int>::empty());
            }
//@at depth=1 kw=rset nth=1 expect="rset\.\w+\.clear\(\);" unique=1
        proof { broadcast use axiom_ref_items_slice; reveal(ps_valid); reveal(ps_lifted); }
//@at tail expect="(return )?Some\(Ok\("
        proof { assert(rset.buffer@ =~= self.b()); }
//@end

//@fn fasta::Reader::read_record_set ret=r tags=C04,C09
//@spec
        requires
            old(self).wf(), old(rset).wf(),
        ensures
            [C04|fasta.read_record_set.is_exact_none] final(self).wf() && final(rset).wf() && final(self).f() == old(self).f()
                && (r matches Some(Ok(_)) ==> final(rset).n() >= 1),
//@end
}

    // =============================================================================================
    // writers (C10)
    // =============================================================================================
//@fn fasta::write_head ret=r tags=C10
//@spec
        ensures
            [C10|fasta.write_head] r is Ok ==> writer.fin() == writer.written() + fa_head_r(head@),
//@body_start
        broadcast use io::resolve_law_b;
//@end

//@fn fasta::write_id_desc ret=r tags=C10
//@spec
        ensures
            [C10|fasta.write_id_desc] r is Ok ==> writer.fin() == writer.written() + fa_head_r(match desc { Some(d) => id@ + seq![32u8] + d@, None => id@ }),
//@body_start
        broadcast use io::resolve_law_b;
//@end

//@fn fasta::write_seq ret=r tags=C10
//@spec
        ensures
            [C10|fasta.write_seq] r is Ok ==> writer.fin() == writer.written() + seq@ + seq![10u8],
//@body_start
        broadcast use io::resolve_law_b;
//@end

//@fn fasta::write_to ret=r tags=C10
//@spec
        ensures
            [C10|fasta.write_to] r is Ok ==> writer.fin() == writer.written() + fa_render(head@, seq@),
//@body_start
        broadcast use io::resolve_law_b, io::axiom_lend_keeps_fin;
//@tail vx_r
        proof { }
//@end

//@fn fasta::write_parts ret=r tags=C10
//@spec
        ensures
            [C10|fasta.write_parts] r is Ok ==> writer.fin() == writer.written() + fa_render(match desc { Some(d) => id@ + seq![32u8] + d@, None => id@ }, seq@),
//@body_start
        broadcast use io::resolve_law_b, io::axiom_lend_keeps_fin;
//@tail vx_r
        proof { }
//@end

//@fn fasta::write_wrap_seq ret=r tags=C10
//@local chunk ord=0 kind=for
//@spec
        requires
            wrap > 0,
        ensures
            [C10|fasta.write_wrap_seq] r is Ok ==> writer.fin() == writer.written() + wrap_lines(seq@, wrap as int),
//@body_start
        broadcast use io::resolve_law_b;
        let ghost w0 = writer.written();
        let ghost fin0 = writer.fin();
//@loop 0 r8=vx_ch
            invariant
                wrap > 0, chunks_size(&vx_ch) == wrap, writer.fin() == fin0,
                [C10|fasta.write_wrap_seq.inv] writer.written() + wrap_lines(chunks_rest(&vx_ch), wrap as int) == w0 + wrap_lines(seq@, wrap as int),
            ensures
                writer.written() == w0 + wrap_lines(seq@, wrap as int), writer.fin() == fin0,
            decreases chunks_rest(&vx_ch).len(),
//---pre
            let ghost rest0 = chunks_rest(&vx_ch);
            let ghost wr0 = writer.written();
//@at tail expect="(return )?Ok\(\(\)\)"
        proof { }
//@end

//@fn fasta::write_wrap ret=r tags=C10
//@spec
        requires
            wrap > 0,
        ensures
            [C10|fasta.write_wrap] r is Ok ==> writer.fin() == writer.written()
                + fa_head_r(match desc { Some(d) => id@ + seq![32u8] + d@, None => id@ }) + wrap_lines(seq@, wrap as int),
//@body_start
        broadcast use io::resolve_law_b, io::axiom_lend_keeps_fin;
//@tail vx_r
        proof { }
//@end

//@fn fasta::write_seq_iter ret=r tags=C10
//@local subseq ord=0 kind=for
//@spec
        requires
            seq.it_pre(), seq.it_lawful(),
            forall|x: &'a [u8]| #[trigger] P::iv(&x) == x@,
        ensures
            [C10|fasta.write_seq_iter] r is Ok ==> writer.fin() == writer.written() + concat(seq.it_views()) + seq![10u8],
//@body_start
        broadcast use io::resolve_law_b;
        let ghost w0 = writer.written();
        let ghost fin0 = writer.fin();
        let ghost all = seq.it_views();
//@loop 0 r8=vx_it
            invariant
                vx_it.it_pre(), vx_it.it_lawful(), writer.fin() == fin0,
                forall|x: &'a [u8]| #[trigger] P::iv(&x) == x@,
                vx_it.it_views().len() <= all.len(),
                vx_it.it_views() =~= all.subrange(all.len() - vx_it.it_views().len(), all.len() as int),
                [C10|fasta.write_seq_iter.inv] writer.written() == w0 + concat(all.subrange(0, all.len() - vx_it.it_views().len())),
            ensures
                writer.written() == w0 + concat(all), writer.fin() == fin0,
            decreases vx_it.it_dec(),
//---pre
            let ghost k0 = all.len() - vx_it.it_views().len();
            proof { assert(all.subrange(0, all.len() as int) =~= all); }
//@at depth=2 kw=writer nth=0 expect="writer\.write_all\("
            proof {
                assert(all.subrange(0, k0 + 1) =~= all.subrange(0, k0).push(all[k0]));
                lemma_concat_push(all.subrange(0, k0), all[k0]);
                assert(w0 + (concat(all.subrange(0, k0)) + all[k0]) =~= (w0 + concat(all.subrange(0, k0))) + all[k0]);
            }
//@end

//@fn fasta::write_wrap_seq_iter ret=r tags=C10
//@local n_line ord=0 kind=letmut
//@local subseq ord=1 kind=for
//@local chunk ord=2 kind=letmut
//@spec
        requires
            wrap > 0, seq.ii_pre(), seq.ii_lawful(),
            forall|x: &'a [u8]| #[trigger] <P::IntoIter as Iterator>::iv(&x) == x@,
        ensures
            [C10|fasta.write_wrap_seq_iter] r is Ok ==> writer.fin() == writer.written() + wrap_lines_iter(concat(seq.ii_views()), wrap as int),
//@body_start
        broadcast use io::resolve_law_b;
        let ghost w0 = writer.written();
        let ghost fin0 = writer.fin();
        let ghost all = seq.ii_views();
        let ghost w = wrap as int;
//@loop 0 r8=vx_it into=1
            invariant
                wrap > 0, w == wrap, vx_it.it_pre(), vx_it.it_lawful(), writer.fin() == fin0,
                forall|x: &'a [u8]| #[trigger] <P::IntoIter as Iterator>::iv(&x) == x@,
                vx_it.it_views().len() <= all.len(),
                vx_it.it_views() =~= all.subrange(all.len() - vx_it.it_views().len(), all.len() as int),
                [C10|fasta.write_wrap_seq_iter.outer] ({
                    let t = concat(all.subrange(0, all.len() - vx_it.it_views().len()));
                    writer.written() == w0 + lazy_wrap(t, w) && n_line == last_len(t, w) }),
            ensures
                writer.written() == w0 + lazy_wrap(concat(all), w), writer.fin() == fin0,
            decreases vx_it.it_dec(),
//---pre
            let ghost k0 = all.len() - vx_it.it_views().len();
            let ghost t0 = concat(all.subrange(0, k0));
            proof { assert(all.subrange(0, all.len() as int) =~= all); lemma_last_len_bounds(t0, w); }
//@loop 1 kw=loop
                invariant_except_break
                    chunk@.len() <= subseq@.len(), chunk@ =~= subseq@.subrange(subseq@.len() - chunk@.len(), subseq@.len() as int),
                    [C10|fasta.write_wrap_seq_iter.inner] ({
                        let t = t0 + subseq@.subrange(0, subseq@.len() - chunk@.len());
                        let eager = n_line == 0 && t.len() > 0;
                        &&& writer.written() == w0 + lazy_wrap(t, w) + (if eager { seq![10u8] } else { Seq::<u8>::empty() })
                        &&& (eager ==> last_len(t, w) == w && chunk@.len() > 0)
                        &&& (!eager ==> n_line == last_len(t, w))
                        &&& n_line <= w }),
                invariant
                    wrap > 0, w == wrap, writer.fin() == fin0, k0 < all.len(), subseq@ == all[k0], t0 == concat(all.subrange(0, k0)),
                ensures
                    writer.written() == w0 + lazy_wrap(t0 + subseq@, w) && n_line == last_len(t0 + subseq@, w) && writer.fin() == fin0,
                decreases chunk@.len(), (if n_line == wrap { 1int } else { 0int }),
//@at depth=3 nth=0
                    let ghost tin = t0 + subseq@.subrange(0, subseq@.len() - chunk@.len());
                    let ghost wr0 = writer.written();
                    proof {
                        lemma_last_len_bounds(tin, w);
                        // case "the rest of the chunk fits on the current line"
                        assert(tin + chunk@ =~= t0 + subseq@) by {
                            assert(subseq@.subrange(0, subseq@.len() - chunk@.len()) + chunk@ =~= subseq@);
                        }
                        lemma_lazy_step(tin, chunk@, w);
                        // case "the line is filled up and broken"
                        if chunk@.len() > w - n_line {
                            let ln = chunk@.subrange(0, (w - n_line) as int);
                            assert(tin + ln =~= t0 + subseq@.subrange(0, subseq@.len() - chunk@.len() + (w - n_line))) by {
                                assert(subseq@.subrange(0, subseq@.len() - chunk@.len()) + ln =~= subseq@.subrange(0, subseq@.len() - chunk@.len() + (w - n_line)));
                            }
                            lemma_lazy_step(tin, ln, w);
                            lemma_last_len_bounds(tin + ln, w);
                        }
                    }
//@after_loop 1
            proof {
                assert(all.subrange(0, k0 + 1) =~= all.subrange(0, k0).push(all[k0]));
                lemma_concat_push(all.subrange(0, k0), all[k0]);
            }
//@at depth=2 kw=let nth=0 expect="let mut chunk = subseq;" unique=1
            proof {
                assert(subseq@.subrange(0, 0) =~= Seq::<u8>::empty());
                assert(t0 + Seq::<u8>::empty() =~= t0);
            }
//@at depth=1 kw=writer nth=0 expect="writer\.write_all\("
        proof { lemma_lazy_final(concat(all), w); }
//@end

//@item fasta::RecordSetIter
    impl<'a> RecordSetIter<'a> {
        #[verifier::prophetic]
        spec fn rem(&self) -> Seq<&'a BufferPosition> { self.pos.remaining() }
        #[verifier::prophetic]
        spec fn iwf(&self) -> bool {
            self.pos.obeys_prophetic_iter_laws() && self.pos.decrease() is Some
            && forall|i: int| 0 <= i < self.rem().len() ==> (#[trigger] self.rem()[i]).rwf(self.buffer@)
        }
    }

//@impl_open fasta::IntoIterator for &RecordSet::into_iter
//@item fasta::IntoIterator for &RecordSet::Item
//@item fasta::IntoIterator for &RecordSet::IntoIter
    #[verifier::prophetic]
    spec fn ii_pre(self) -> bool { self.wf() }
    #[verifier::prophetic]
    spec fn ii_views(self) -> Seq<Seq<u8>> { Seq::<Seq<u8>>::empty() }
    spec fn ii_lawful(self) -> bool { false }
//@fn fasta::IntoIterator for &RecordSet::into_iter ret=r tags=C04,C20,C13
//@spec
        ensures
            [C04,C20|fasta.RecordSet.into_iter] r.iwf() && r.buffer@ == self.buffer@ && r.rem().len() == self.n()
                && forall|i: int| 0 <= i < self.n() ==> (#[trigger] r.rem()[i]).same_as(&self.positions@[i]),
//@end
}

//@impl_open fasta::Iterator for RecordSetIter::next
//@item fasta::Iterator for RecordSetIter::Item
    #[verifier::prophetic]
    spec fn it_pre(&self) -> bool { self.iwf() }
    spec fn it_lawful(&self) -> bool { false }
    #[verifier::prophetic]
    spec fn it_views(&self) -> Seq<Seq<u8>> { Seq::<Seq<u8>>::empty() }
    spec fn iv(x: &RefRecord<'a>) -> Seq<u8> { Seq::<u8>::empty() }
    spec fn it_dec(&self) -> nat { match self.pos.decrease() { Some(n) => n as nat, None => 0 } }
//@fn fasta::Iterator for RecordSetIter::next ret=r tags=C04,C20,C06
//@spec
        ensures
            [C20,C04|fasta.RecordSetIter.next.some] old(self).rem().len() > 0 ==> (r matches Some(rec) && rec.buf_pos == old(self).rem()[0] && rec.buffer@ == old(self).buffer@
                && rec.rwf() && final(self).rem() == old(self).rem().drop_first()),
            [C20|fasta.RecordSetIter.next.none_is_sticky] old(self).rem().len() == 0 ==> r is None && final(self).rem().len() == 0,
            [C20,C06|fasta.RecordSetIter.next.frame] final(self).iwf() && final(self).buffer == old(self).buffer,
//@tail vx_r
        proof {
            assert(vx_r is Some ==> old(self).pos.decrease() is Some && self.pos.decrease() is Some
                && self.pos.decrease().unwrap() < old(self).pos.decrease().unwrap());
        }
//@end
}

//@item fasta::RecordsIter
//@item fasta::RecordsIntoIter
//@impl_open fasta::Reader::records
//@fn fasta::Reader::records ret=r tags=C20,C04
//@spec
        ensures
            [C04,C20|fasta.records.same_reader] *r.rdr == *old(self) && *final(r.rdr) == *final(self),
//@end
//@fn fasta::Reader::into_records ret=r tags=C20,C04
//@spec
        ensures
            [C04,C20|fasta.into_records.same_reader] r.rdr == self,
//@end
}

    // ---- owned-record iterators (R15: verified as inherent methods, see DESIGN 11.6) ----

//@impl_open fasta::Iterator for RecordsIter::next inherent=1
//@fn fasta::Iterator for RecordsIter::next ret=r tags=C20,C04,C13
//@spec
        requires
            old(self).rdr.wf(),
        ensures
            [C04,C06,C20|fasta.RecordsIter.next.wf] final(self).rdr.wf() && final(self).rdr.f() == old(self).rdr.f(),
            [C20|fasta.RecordsIter.next.end_is_sticky] old(self).rdr.state == State::Finished ==> r is None && final(self).rdr.state == State::Finished,
            [C04,C20|fasta.RecordsIter.next.end] r is None ==> final(self).rdr.state == State::Finished
                && (old(self).rdr.state == State::Finished || (old(self).rdr.state == State::New
                    && (old(self).rdr.fresh() ==> first_nonblank(old(self).rdr.f(), 0) == old(self).rdr.f().len()))),
            [C01,C04,C13|fasta.RecordsIter.next.record] r matches Some(Ok(o)) ==> (old(self).rdr.clean() ==> ({
                    let (ff, p) = (old(self).rdr.f(), old(self).rdr.cursor());
                    &&& 0 <= p < ff.len() && ff[p] == 62u8
                    &&& o.head@ == fa_rec_head(ff, p) && o.seq@ == concat(fa_rec_lines(ff, p))
                    &&& (final(self).rdr.state == State::Parsing ==> final(self).rdr.cursor() == fa_bnd(ff, p) && fa_bnd(ff, p) < ff.len())
                    &&& (final(self).rdr.state == State::Finished ==> fa_bnd(ff, p) == ff.len())
                })),
//@closure 0 params="rec: Result<RefRecord, Error>" ret="(q: Result<OwnedRecord, Error>)"
            requires rec matches Ok(x) ==> x.rwf()
            ensures (rec matches Ok(x) ==> q matches Ok(o) && o.head@ == x.head_v() && o.seq@ == concat(x.lines_v())),
                (rec matches Err(e) ==> q == Err::<OwnedRecord, Error>(e))
//@closure 1 params="r: RefRecord" ret="(o: OwnedRecord)"
            requires r.rwf()
            ensures o.head@ == r.head_v() && o.seq@ == concat(r.lines_v())
//@tail vx_r
        proof {
            if vx_r is Some && vx_r.unwrap() is Ok {
                if old(self).rdr.clean() {
                    let (ff, p) = (old(self).rdr.f(), old(self).rdr.cursor());
                    let rd = &self.rdr;
                    let l = shl(spv(rd.buf_pos.seq_pos@), rd.base());
                    let e = rd.base() + rd.search_pos;
                    if rd.state == State::Parsing { lemma_lines_complete(ff, p, l, e); } else { lemma_lines_eof(ff, p, l, e); }
                    lemma_views_lift(ff, rd.base(), rd.b(), &rd.buf_pos);
                }
            }
        }
//@end
}

//@impl_open fasta::Iterator for RecordsIntoIter::next inherent=1
//@fn fasta::Iterator for RecordsIntoIter::next ret=r tags=C20,C04,C13
//@spec
        requires
            old(self).rdr.wf(),
        ensures
            [C04,C06,C20|fasta.RecordsIntoIter.next.wf] final(self).rdr.wf() && final(self).rdr.f() == old(self).rdr.f(),
            [C20|fasta.RecordsIntoIter.next.end_is_sticky] old(self).rdr.state == State::Finished ==> r is None && final(self).rdr.state == State::Finished,
            [C04,C20|fasta.RecordsIntoIter.next.end] r is None ==> final(self).rdr.state == State::Finished
                && (old(self).rdr.state == State::Finished || (old(self).rdr.state == State::New
                    && (old(self).rdr.fresh() ==> first_nonblank(old(self).rdr.f(), 0) == old(self).rdr.f().len()))),
            [C01,C04,C13|fasta.RecordsIntoIter.next.record] r matches Some(Ok(o)) ==> (old(self).rdr.clean() ==> ({
                    let (ff, p) = (old(self).rdr.f(), old(self).rdr.cursor());
                    &&& 0 <= p < ff.len() && ff[p] == 62u8
                    &&& o.head@ == fa_rec_head(ff, p) && o.seq@ == concat(fa_rec_lines(ff, p))
                    &&& (final(self).rdr.state == State::Parsing ==> final(self).rdr.cursor() == fa_bnd(ff, p) && fa_bnd(ff, p) < ff.len())
                    &&& (final(self).rdr.state == State::Finished ==> fa_bnd(ff, p) == ff.len())
                })),
//@closure 0 params="rec: Result<RefRecord, Error>" ret="(q: Result<OwnedRecord, Error>)"
            requires rec matches Ok(x) ==> x.rwf()
            ensures (rec matches Ok(x) ==> q matches Ok(o) && o.head@ == x.head_v() && o.seq@ == concat(x.lines_v())),
                (rec matches Err(e) ==> q == Err::<OwnedRecord, Error>(e))
//@closure 1 params="r: RefRecord" ret="(o: OwnedRecord)"
            requires r.rwf()
            ensures o.head@ == r.head_v() && o.seq@ == concat(r.lines_v())
//@tail vx_r
        proof {
            if vx_r is Some && vx_r.unwrap() is Ok {
                if old(self).rdr.clean() {
                    let (ff, p) = (old(self).rdr.f(), old(self).rdr.cursor());
                    let rd = &self.rdr;
                    let l = shl(spv(rd.buf_pos.seq_pos@), rd.base());
                    let e = rd.base() + rd.search_pos;
                    if rd.state == State::Parsing { lemma_lines_complete(ff, p, l, e); } else { lemma_lines_eof(ff, p, l, e); }
                    lemma_views_lift(ff, rd.base(), rd.b(), &rd.buf_pos);
                }
            }
        }
//@end
}

    } // verus!
}
