fn main() {}
