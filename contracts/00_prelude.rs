// =====================================================================================================
// GENERATED FILE LAYOUT: this text is /verif/contracts/00_prelude.rs (trusted stubs, DESIGN.md 3.1/3.2).
// Everything in this file is ghost or `external_body`: it is the *assumed* environment of seq_io.
// =====================================================================================================
#![feature(allocator_api)]
#![allow(unused_imports, dead_code, unused_variables, unused_mut, unused_macros, non_snake_case, unused_parens)]
use vstd::prelude::*;

// ---- T2: std::io surface used by seq_io -------------------------------------------------------------
pub mod io {
    use vstd::prelude::*;
    verus! {
    #[derive(Structural, PartialEq, Eq, Clone, Copy)]
    pub enum ErrorKind { Interrupted, NotFound, UnexpectedEof, Other }

    /// `id` is a ghost identity: two errors are "the same error" iff kind and id agree.
    pub struct Error { pub k: ErrorKind, pub id: Ghost<int> }
    impl Error {
        pub fn kind(&self) -> (r: ErrorKind) ensures r == self.k { self.k }
    }
    pub type Result<T> = core::result::Result<T, Error>;
    pub trait Read {}
    pub trait Seek {}
    pub enum SeekFrom { Start(u64), End(i64), Current(i64) }

    /// T5: sink. `written()` = bytes accepted so far; `fin()` = prophecy of the bytes at the moment the
    /// caller gets the sink back (for a by-value `W` that is `&mut W0`, see impl below).
    pub trait Write: Sized {
        spec fn written(&self) -> Seq<u8>;
        #[verifier::prophetic]
        spec fn fin(&self) -> Seq<u8>;
        fn write_all(&mut self, buf: &[u8]) -> (r: Result<()>)
            ensures
                r is Ok ==> (*final(self)).written() == (*old(self)).written() + buf@,
                r is Err ==> (*old(self)).written().is_prefix_of((*final(self)).written()),
                (*final(self)).fin() == (*old(self)).fin();
        proof fn resolve_law(&self)
            requires has_resolved(*self)
            ensures self.fin() == self.written();
    }
    impl<W: Write> Write for &mut W {
        open spec fn written(&self) -> Seq<u8> { (**self).written() }
        #[verifier::prophetic]
        open spec fn fin(&self) -> Seq<u8> { (*final(*self)).written() }
        fn write_all(&mut self, buf: &[u8]) -> (r: Result<()>) { (**self).write_all(buf) }
        proof fn resolve_law(&self) {}
    }
    pub broadcast proof fn resolve_law_b<W: Write>(w: W)
        requires #[trigger] has_resolved(w)
        ensures w.fin() == w.written()
    { w.resolve_law(); }
    /// T5b (assumed): lending a sink (`&mut writer`) to another writer function does not change what the sink will
    /// finally contain. True for every function that only calls write_all or lends the sink on (all writer functions
    /// of seq_io do, by inspection); it would be false for code that replaces `*w` by another sink.
    pub broadcast axiom fn axiom_lend_keeps_fin<W: Write>(w: &mut W)
        ensures #[trigger] (*final(w)).fin() == (*old(w)).fin();
    } // verus!
}

// ---- T3: memchr --------------------------------------------------------------------------------------
pub mod memchr_stub {
    use vstd::prelude::*;
    verus! {
    #[verifier::external_body]
    pub fn memchr(needle: u8, haystack: &[u8]) -> (r: Option<usize>)
        ensures match r {
            Some(p) => p < haystack@.len() && haystack@[p as int] == needle
                       && forall|j: int| 0 <= j < p ==> haystack@[j] != needle,
            None => forall|j: int| 0 <= j < haystack@.len() ==> haystack@[j] != needle,
        }
    { unimplemented!() }
    } // verus!
}

// ---- T1: buffer_redux::BufReader ---------------------------------------------------------------------
pub mod buffer_redux {
    use vstd::prelude::*;
    use super::io;
    pub mod policy { use vstd::prelude::*; verus! { pub struct StdPolicy; } }
    verus! {
    #[verifier::accept_recursive_types(R)]
    #[verifier::accept_recursive_types(P)]
    #[verifier::external_body]
    pub struct BufReader<R, P = policy::StdPolicy> { r: R, p: P }

    impl<R, P> BufReader<R, P> {
        /// the whole input behind the source (fixed)
        pub uninterp spec fn file(&self) -> Seq<u8>;
        /// file offset of buffer()[0]
        pub uninterp spec fn base(&self) -> nat;
        /// the valid bytes
        pub uninterp spec fn buf(&self) -> Seq<u8>;
        pub uninterp spec fn cap(&self) -> nat;
        /// consumed-but-not-compacted bytes in front of buf (StdBuf.pos)
        pub uninterp spec fn head(&self) -> nat;
        /// ghost budget: a source is not interrupted forever
        pub uninterp spec fn interrupts_left(&self) -> nat;
        /// log of the non-Interrupted errors the source has raised so far
        pub uninterp spec fn errs(&self) -> Seq<io::Error>;

        pub open spec fn wf(&self) -> bool {
            &&& self.head() + self.buf().len() <= self.cap()
            &&& self.cap() <= isize::MAX       // no allocation exceeds isize::MAX bytes
            &&& self.file().len() < 0x4000_0000_0000_0000      // T9
            &&& (self.buf().len() > 0 ==> self.base() + self.buf().len() <= self.file().len())
            &&& (self.buf().len() > 0 ==> self.buf() == self.file().subrange(self.base() as int, (self.base() + self.buf().len()) as int))
        }
        pub open spec fn at_eof(&self) -> bool { self.base() + self.buf().len() >= self.file().len() }
        pub open spec fn usable(&self) -> int { self.cap() - self.head() - self.buf().len() }
        /// nothing but the listed component changed
        pub open spec fn same_source(&self, o: &Self) -> bool {
            self.file() == o.file() && self.errs() == o.errs() && self.interrupts_left() == o.interrupts_left()
        }

        #[verifier::external_body]
        pub fn with_capacity(cap: usize, inner: R) -> (r: Self)
            requires cap <= isize::MAX
            ensures r.wf(), r.buf().len() == 0, r.base() == 0, r.head() == 0, r.cap() >= cap, r.errs().len() == 0,
        { unimplemented!() }

        #[verifier::external_body]
        pub fn buffer(&self) -> (r: &[u8]) ensures r@ == self.buf() { unimplemented!() }

        #[verifier::external_body]
        pub fn capacity(&self) -> (r: usize) ensures r == self.cap() { unimplemented!() }

        /// StdBuf::make_room: move the valid bytes to offset 0 (no-op when head == 0)
        #[verifier::external_body]
        pub fn make_room(&mut self)
            ensures final(self).buf() == old(self).buf(), final(self).base() == old(self).base(), final(self).cap() == old(self).cap(),
                    final(self).head() == 0, final(self).same_source(old(self)),
                    old(self).wf() ==> final(self).wf(),
        { unimplemented!() }

        /// StdBuf::reserve: at least `additional` usable bytes afterwards, contents untouched
        #[verifier::external_body]
        pub fn reserve(&mut self, additional: usize)
            requires old(self).cap() + additional <= usize::MAX
            ensures final(self).buf() == old(self).buf(), final(self).base() == old(self).base(),
                    final(self).cap() >= old(self).cap(), final(self).cap() <= isize::MAX,
                    final(self).head() == (if old(self).buf().len() == 0 { 0 } else { old(self).head() }),
                    final(self).usable() >= additional,
                    old(self).usable() >= additional ==> final(self).cap() == old(self).cap(),
                    final(self).same_source(old(self)),
                    old(self).wf() ==> final(self).wf(),
        { unimplemented!() }

        /// BufRead::consume: clamps to the buffer length; cursors reset when the buffer runs empty
        #[verifier::external_body]
        pub fn consume(&mut self, amt: usize)
            ensures ({ let a = if amt <= old(self).buf().len() { amt as int } else { old(self).buf().len() as int };
                       &&& final(self).buf() == old(self).buf().subrange(a, old(self).buf().len() as int)
                       &&& final(self).base() == old(self).base() + a
                       &&& final(self).head() == (if a == old(self).buf().len() { 0 } else { old(self).head() + a }) }),
                    final(self).cap() == old(self).cap(), final(self).same_source(old(self)),
                    old(self).wf() ==> final(self).wf(),
        { unimplemented!() }
    }

    impl<R: io::Read, P> BufReader<R, P> {
        /// One `read` call of the source into the free tail. Non-deterministic: any chunk size, interrupts, faults.
        #[verifier::external_body]
        pub fn read_into_buf(&mut self) -> (r: io::Result<usize>)
            requires old(self).wf()
            ensures
                final(self).wf(),
                final(self).file() == old(self).file(), final(self).base() == old(self).base(),
                final(self).cap() == old(self).cap(), final(self).head() == old(self).head(),
                match r {
                    Ok(n) => {
                        &&& final(self).buf().len() == old(self).buf().len() + n
                        &&& final(self).buf().subrange(0, old(self).buf().len() as int) == old(self).buf()
                        &&& final(self).interrupts_left() == old(self).interrupts_left()
                        &&& final(self).errs() == old(self).errs()
                        &&& (n == 0 ==> (old(self).usable() == 0 || old(self).at_eof()))
                    },
                    Err(e) => {
                        &&& final(self).buf() == old(self).buf()
                        &&& (e.k == io::ErrorKind::Interrupted ==> final(self).interrupts_left() < old(self).interrupts_left()
                                                                   && final(self).errs() == old(self).errs())
                        &&& (e.k != io::ErrorKind::Interrupted ==> final(self).interrupts_left() == old(self).interrupts_left()
                                                                   && final(self).errs() == old(self).errs().push(e))
                    },
                },
        { unimplemented!() }
    }

    impl<R: io::Seek, P> BufReader<R, P> {
        /// Seek::seek(SeekFrom::Start(x)): seeks the source, then drops the buffer. A failing seek changes nothing.
        #[verifier::external_body]
        pub fn seek(&mut self, pos: io::SeekFrom) -> (r: io::Result<u64>)
            requires old(self).wf(), pos is Start
            ensures
                final(self).wf(), final(self).file() == old(self).file(), final(self).cap() == old(self).cap(),
                final(self).interrupts_left() == old(self).interrupts_left(),
                match r {
                    Ok(n) => pos == io::SeekFrom::Start(n) && final(self).buf().len() == 0 && final(self).base() == n
                             && final(self).head() == 0 && final(self).errs() == old(self).errs(),
                    Err(e) => final(self).buf() == old(self).buf() && final(self).base() == old(self).base()
                              && final(self).head() == old(self).head() && final(self).errs() == old(self).errs().push(e),
                },
        { unimplemented!() }
    }
    } // verus!
}

verus! {
/// T8: the verified target is 64-bit (as the sandbox is)
global size_of usize == 8;
/// R10: a reachable `assert!` is an obligation
pub fn vx_panic() requires false { }
}

// ---- T3: memchr::Memchr (iterator over all positions of a byte) -----------------------------------------
pub mod memchr_iter_stub {
    use vstd::prelude::*;
    use super::spec::*;
    verus! {
    #[verifier::external_body]
    pub struct Memchr<'a> { h: &'a [u8] }
    impl<'a> Memchr<'a> {
        pub uninterp spec fn hay(&self) -> Seq<u8>;
        pub uninterp spec fn needle(&self) -> u8;
        /// offset from which the next search starts
        pub uninterp spec fn at(&self) -> int;
        #[verifier::external_body]
        pub fn new(needle: u8, haystack: &'a [u8]) -> (r: Memchr<'a>)
            ensures r.hay() == haystack@, r.needle() == needle, r.at() == 0
        { unimplemented!() }
        /// Iterator::next: the next position of the needle at or after `at`, ascending, none skipped
        #[verifier::external_body]
        pub fn next(&mut self) -> (r: Option<usize>)
            requires 0 <= old(self).at() <= old(self).hay().len()
            ensures final(self).hay() == old(self).hay(), final(self).needle() == old(self).needle(),
                ({ let k = first_of(old(self).hay(), old(self).needle(), old(self).at());
                   &&& (k < old(self).hay().len() ==> r == Some(k as usize) && final(self).at() == k + 1)
                   &&& (k >= old(self).hay().len() ==> r is None && final(self).at() == old(self).hay().len()) })
        { unimplemented!() }
    }
    } // verus!
}
