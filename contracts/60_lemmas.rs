// =====================================================================================================
// /verif/contracts/60_lemmas.rs — lemmas over the contracts (no code of /repo in this file)
//
// The reader contracts say: next() returns the record that the format rules define at the reader's file
// cursor (g_head / g_seq / g_qual / vok / gstart / end_ok for FASTQ, fa_start / fa_rec_head / fa_rec_lines
// for FASTA, true_line for positions).  The lemmas here are statements about those rule functions
// themselves: what they yield on a text given as a list of lines with arbitrary LF / CRLF endings (C12),
// and on the text the writer contracts say is produced (C10, C11).
// =====================================================================================================
pub mod lemmas {
    use vstd::prelude::*;
    use super::spec::*;
    use super::fastq::{c1, c2, c3, c4, g_head, g_seq, g_qual, vok, group_complete, gstart, end_ok, may_accept, same_term, trimmed_eq,
                       g_seq_cr, g_qual_cr, ends_cr, fq_render};
    verus! {

    // ---------------------------------------------------------------------------------------------
    // texts as lists of lines
    // ---------------------------------------------------------------------------------------------
    /// line terminator: optional CR, optional LF
    pub open spec fn term(cr: bool, lf: bool) -> Seq<u8> {
        (if cr { seq![13u8] } else { Seq::<u8>::empty() }) + (if lf { seq![10u8] } else { Seq::<u8>::empty() })
    }
    /// the first n lines of ls as text: line i is followed by CR if cr[i], and by LF unless it is the last line and !fin
    pub open spec fn text(ls: Seq<Seq<u8>>, cr: Seq<bool>, fin: bool, n: int) -> Seq<u8>
        decreases n
    {
        if n <= 0 { Seq::<u8>::empty() } else { text(ls, cr, fin, n - 1) + ls[n - 1] + term(cr[n - 1], n < ls.len() || fin) }
    }
    /// offset of line i
    pub open spec fn off(ls: Seq<Seq<u8>>, cr: Seq<bool>, fin: bool, i: int) -> int { text(ls, cr, fin, i).len() as int }
    /// the whole text
    pub open spec fn full(ls: Seq<Seq<u8>>, cr: Seq<bool>, fin: bool) -> Seq<u8> { text(ls, cr, fin, ls.len() as int) }
    /// lines contain no LF and do not end in CR; an unterminated last line has no CR either
    pub open spec fn lines_ok(ls: Seq<Seq<u8>>, cr: Seq<bool>, fin: bool) -> bool {
        &&& cr.len() == ls.len()
        &&& forall|i: int, j: int| 0 <= i < ls.len() && 0 <= j < ls[i].len() ==> (#[trigger] ls[i][j]) != 10u8
        &&& forall|i: int| 0 <= i < ls.len() ==> (#[trigger] ls[i]).len() > 0 ==> ls[i][ls[i].len() - 1] != 13u8
        &&& (!fin && ls.len() > 0 ==> !cr[ls.len() - 1])
    }
    /// number of terminator bytes of line i
    pub open spec fn tlen(ls: Seq<Seq<u8>>, cr: Seq<bool>, fin: bool, i: int) -> int {
        (if cr[i] { 1int } else { 0int }) + (if i + 1 < ls.len() || fin { 1int } else { 0int })
    }

    pub proof fn lemma_off_step(ls: Seq<Seq<u8>>, cr: Seq<bool>, fin: bool, i: int)
        requires 0 <= i < ls.len()
        ensures off(ls, cr, fin, i + 1) == off(ls, cr, fin, i) + ls[i].len() + tlen(ls, cr, fin, i),
                off(ls, cr, fin, 0) == 0, off(ls, cr, fin, i) >= 0
    {
        assert(text(ls, cr, fin, i + 1) == text(ls, cr, fin, i) + ls[i] + term(cr[i], i + 1 < ls.len() || fin));
    }

    /// text(n) starts with text(i)
    pub proof fn lemma_text_prefix(ls: Seq<Seq<u8>>, cr: Seq<bool>, fin: bool, i: int, n: int)
        requires 0 <= i <= n <= ls.len()
        ensures off(ls, cr, fin, i) <= off(ls, cr, fin, n),
                text(ls, cr, fin, n).subrange(0, off(ls, cr, fin, i)) == text(ls, cr, fin, i)
        decreases n - i
    {
        if i < n {
            lemma_text_prefix(ls, cr, fin, i, n - 1);
            let a = text(ls, cr, fin, n - 1);
            let b = ls[n - 1] + term(cr[n - 1], n < ls.len() || fin);
            assert(text(ls, cr, fin, n) =~= a + b);
            assert((a + b).subrange(0, off(ls, cr, fin, i)) =~= a.subrange(0, off(ls, cr, fin, i)));
        } else {
            assert(text(ls, cr, fin, n).subrange(0, off(ls, cr, fin, i)) =~= text(ls, cr, fin, i));
        }
    }

    /// where line i sits in the whole text: its bytes, then CR (if any), then LF (if any)
    pub proof fn lemma_line_at(ls: Seq<Seq<u8>>, cr: Seq<bool>, fin: bool, i: int)
        requires 0 <= i < ls.len(), cr.len() == ls.len()
        ensures ({
            let f = full(ls, cr, fin); let o = off(ls, cr, fin, i); let n = ls[i].len() as int;
            &&& 0 <= o && o + n + tlen(ls, cr, fin, i) == off(ls, cr, fin, i + 1) <= f.len()
            &&& f.subrange(o, o + n) == ls[i]
            &&& (cr[i] ==> f[o + n] == 13u8)
            &&& (i + 1 < ls.len() || fin ==> f[off(ls, cr, fin, i + 1) - 1] == 10u8)
        })
    {
        let f = full(ls, cr, fin);
        let o = off(ls, cr, fin, i);
        let n = ls[i].len() as int;
        lemma_off_step(ls, cr, fin, i);
        lemma_text_prefix(ls, cr, fin, i + 1, ls.len() as int);
        lemma_text_prefix(ls, cr, fin, i, i + 1);
        let t1 = text(ls, cr, fin, i + 1);
        let tm = term(cr[i], i + 1 < ls.len() || fin);
        assert(t1 =~= text(ls, cr, fin, i) + ls[i] + tm);
        assert(f.subrange(0, t1.len() as int) == t1);
        assert forall|k: int| 0 <= k < t1.len() implies f[k] == t1[k] by { assert(f.subrange(0, t1.len() as int)[k] == f[k]); }
        assert(f.subrange(o, o + n) =~= ls[i]) by {
            assert forall|k: int| 0 <= k < n implies f.subrange(o, o + n)[k] == ls[i][k] by { assert(t1[o + k] == ls[i][k]); }
        }
        if cr[i] { assert(t1[o + n] == tm[0]); }
        if i + 1 < ls.len() || fin { assert(t1[t1.len() - 1] == tm[tm.len() - 1]); }
    }

    /// the line rules (nl, trim, line numbers) read line i back, whatever the terminators are
    pub proof fn lemma_line_rules(ls: Seq<Seq<u8>>, cr: Seq<bool>, fin: bool, i: int)
        requires 0 <= i < ls.len(), lines_ok(ls, cr, fin)
        ensures ({
            let f = full(ls, cr, fin); let o = off(ls, cr, fin, i);
            &&& 0 <= o <= f.len()
            &&& (i + 1 < ls.len() || fin ==> nl(f, o) == off(ls, cr, fin, i + 1) - 1 && nl(f, o) < f.len())
            &&& (!(i + 1 < ls.len() || fin) ==> nl(f, o) == f.len() && off(ls, cr, fin, i + 1) == f.len())
            &&& trim(f.subrange(o, nl(f, o))) == ls[i]
            &&& ends_cr(f.subrange(o, nl(f, o))) == cr[i]
            &&& (ls[i].len() > 0 ==> o < f.len() && f[o] == ls[i][0])
            &&& count_lf(f, o) == i
        })
        decreases i
    {
        let f = full(ls, cr, fin);
        let o = off(ls, cr, fin, i);
        let n = ls[i].len() as int;
        lemma_line_at(ls, cr, fin, i);
        let e = o + n + (if cr[i] { 1int } else { 0int });      // end of the raw line
        assert forall|j: int| o <= j < e implies f[j] != 10u8 by {
            if j < o + n { assert(f.subrange(o, o + n)[j - o] == f[j]); }
        }
        if i + 1 < ls.len() || fin {
            assert(e == off(ls, cr, fin, i + 1) - 1);
            lemma_nl_is(f, o, e);
        } else {
            lemma_text_prefix(ls, cr, fin, i + 1, ls.len() as int);
            assert(e == f.len());
            lemma_nl_is(f, o, e);
        }
        let raw = f.subrange(o, e);
        assert(raw.subrange(0, n) =~= ls[i]) by {
            assert forall|k: int| 0 <= k < n implies raw.subrange(0, n)[k] == ls[i][k] by { assert(f.subrange(o, o + n)[k] == f[o + k]); }
        }
        if cr[i] {
            assert(raw[raw.len() - 1] == 13u8);
            assert(trim(raw) =~= ls[i]);
        } else {
            assert(raw =~= ls[i]);
            assert(trim(raw) == ls[i]);
        }
        if n > 0 { assert(f.subrange(o, o + n)[0] == f[o]); }
        // line number
        if i == 0 {
            lemma_off_step(ls, cr, fin, 0);
        } else {
            lemma_line_rules(ls, cr, fin, i - 1);
            let o0 = off(ls, cr, fin, i - 1);
            assert(nl(f, o0) == o - 1);
            lemma_count_lf_line(f, o0);
        }
    }

    } // verus!
}
