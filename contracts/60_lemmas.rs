// =====================================================================================================
// /verif/contracts/60_lemmas.rs — lemmas over the contracts (no code of /repo in this file)
//
// The reader contracts say: next() returns the record that the format rules define at the reader's file
// cursor (g_head / g_seq / g_qual / vok / gstart / end_ok for FASTQ, fa_start / fa_rec_head / fa_rec_lines
// for FASTA, true_line for positions).  The lemmas here are statements about those rule functions
// themselves: what they yield on a text given as a list of lines with arbitrary LF / CRLF endings (C12),
// and on the text the writer contracts say is produced (C10, C11).
// =====================================================================================================
pub mod lemmas {
    use vstd::prelude::*;
    use super::spec::*;
    use super::fastq::{c1, c2, c3, c4, g_head, g_seq, g_qual, vok, group_complete, gstart, end_ok, may_accept, same_term, trimmed_eq,
                       g_seq_cr, g_qual_cr, ends_cr, fq_render};
    verus! {

    // ---------------------------------------------------------------------------------------------
    // texts as lists of lines
    // ---------------------------------------------------------------------------------------------
    /// line terminator: optional CR, optional LF
    pub open spec fn term(cr: bool, lf: bool) -> Seq<u8> {
        (if cr { seq![13u8] } else { Seq::<u8>::empty() }) + (if lf { seq![10u8] } else { Seq::<u8>::empty() })
    }
    /// the first n lines of ls as text: line i is followed by CR if cr[i], and by LF unless it is the last line and !fin
    pub open spec fn text(ls: Seq<Seq<u8>>, cr: Seq<bool>, fin: bool, n: int) -> Seq<u8>
        decreases n
    {
        if n <= 0 { Seq::<u8>::empty() } else { text(ls, cr, fin, n - 1) + ls[n - 1] + term(cr[n - 1], n < ls.len() || fin) }
    }
    /// offset of line i
    pub open spec fn off(ls: Seq<Seq<u8>>, cr: Seq<bool>, fin: bool, i: int) -> int { text(ls, cr, fin, i).len() as int }
    /// the whole text
    pub open spec fn full(ls: Seq<Seq<u8>>, cr: Seq<bool>, fin: bool) -> Seq<u8> { text(ls, cr, fin, ls.len() as int) }
    /// lines contain no LF and do not end in CR; an unterminated last line has no CR either
    pub open spec fn lines_ok(ls: Seq<Seq<u8>>, cr: Seq<bool>, fin: bool) -> bool {
        &&& cr.len() == ls.len()
        &&& forall|i: int, j: int| 0 <= i < ls.len() && 0 <= j < ls[i].len() ==> (#[trigger] ls[i][j]) != 10u8
        &&& forall|i: int| 0 <= i < ls.len() ==> (#[trigger] ls[i]).len() > 0 ==> ls[i][ls[i].len() - 1] != 13u8
        &&& (!fin && ls.len() > 0 ==> !cr[ls.len() - 1])
    }
    /// number of terminator bytes of line i
    pub open spec fn tlen(ls: Seq<Seq<u8>>, cr: Seq<bool>, fin: bool, i: int) -> int {
        (if cr[i] { 1int } else { 0int }) + (if i + 1 < ls.len() || fin { 1int } else { 0int })
    }

    pub proof fn lemma_off_step(ls: Seq<Seq<u8>>, cr: Seq<bool>, fin: bool, i: int)
        requires 0 <= i < ls.len()
        ensures off(ls, cr, fin, i + 1) == off(ls, cr, fin, i) + ls[i].len() + tlen(ls, cr, fin, i),
                off(ls, cr, fin, 0) == 0, off(ls, cr, fin, i) >= 0
    {
        assert(text(ls, cr, fin, i + 1) == text(ls, cr, fin, i) + ls[i] + term(cr[i], i + 1 < ls.len() || fin));
    }

    /// text(n) starts with text(i)
    pub proof fn lemma_text_prefix(ls: Seq<Seq<u8>>, cr: Seq<bool>, fin: bool, i: int, n: int)
        requires 0 <= i <= n <= ls.len()
        ensures off(ls, cr, fin, i) <= off(ls, cr, fin, n),
                text(ls, cr, fin, n).subrange(0, off(ls, cr, fin, i)) == text(ls, cr, fin, i)
        decreases n - i
    {
        if i < n {
            lemma_text_prefix(ls, cr, fin, i, n - 1);
            let a = text(ls, cr, fin, n - 1);
            let b = ls[n - 1] + term(cr[n - 1], n < ls.len() || fin);
            assert(text(ls, cr, fin, n) =~= a + b);
            assert((a + b).subrange(0, off(ls, cr, fin, i)) =~= a.subrange(0, off(ls, cr, fin, i)));
        } else {
            assert(text(ls, cr, fin, n).subrange(0, off(ls, cr, fin, i)) =~= text(ls, cr, fin, i));
        }
    }

    /// where line i sits in the whole text: its bytes, then CR (if any), then LF (if any)
    pub proof fn lemma_line_at(ls: Seq<Seq<u8>>, cr: Seq<bool>, fin: bool, i: int)
        requires 0 <= i < ls.len(), cr.len() == ls.len()
        ensures ({
            let f = full(ls, cr, fin); let o = off(ls, cr, fin, i); let n = ls[i].len() as int;
            &&& 0 <= o && o + n + tlen(ls, cr, fin, i) == off(ls, cr, fin, i + 1) <= f.len()
            &&& f.subrange(o, o + n) == ls[i]
            &&& (cr[i] ==> f[o + n] == 13u8)
            &&& (i + 1 < ls.len() || fin ==> f[off(ls, cr, fin, i + 1) - 1] == 10u8)
        })
    {
        let f = full(ls, cr, fin);
        let o = off(ls, cr, fin, i);
        let n = ls[i].len() as int;
        lemma_off_step(ls, cr, fin, i);
        lemma_text_prefix(ls, cr, fin, i + 1, ls.len() as int);
        lemma_text_prefix(ls, cr, fin, i, i + 1);
        let t1 = text(ls, cr, fin, i + 1);
        let tm = term(cr[i], i + 1 < ls.len() || fin);
        assert(t1 =~= text(ls, cr, fin, i) + ls[i] + tm);
        assert(f.subrange(0, t1.len() as int) == t1);
        assert forall|k: int| 0 <= k < t1.len() implies f[k] == t1[k] by { assert(f.subrange(0, t1.len() as int)[k] == f[k]); }
        assert(f.subrange(o, o + n) =~= ls[i]) by {
            assert forall|k: int| 0 <= k < n implies f.subrange(o, o + n)[k] == ls[i][k] by { assert(t1[o + k] == ls[i][k]); }
        }
        if cr[i] { assert(t1[o + n] == tm[0]); }
        if i + 1 < ls.len() || fin { assert(t1[t1.len() - 1] == tm[tm.len() - 1]); }
    }

    /// the line rules (nl, trim, line numbers) read line i back, whatever the terminators are
    pub proof fn lemma_line_rules(ls: Seq<Seq<u8>>, cr: Seq<bool>, fin: bool, i: int)
        requires 0 <= i < ls.len(), lines_ok(ls, cr, fin)
        ensures ({
            let f = full(ls, cr, fin); let o = off(ls, cr, fin, i);
            &&& 0 <= o <= f.len()
            &&& (i + 1 < ls.len() || fin ==> nl(f, o) == off(ls, cr, fin, i + 1) - 1 && nl(f, o) < f.len())
            &&& (!(i + 1 < ls.len() || fin) ==> nl(f, o) == f.len() && off(ls, cr, fin, i + 1) == f.len())
            &&& trim(f.subrange(o, nl(f, o))) == ls[i]
            &&& ends_cr(f.subrange(o, nl(f, o))) == cr[i]
            &&& (ls[i].len() > 0 ==> o < f.len() && f[o] == ls[i][0])
            &&& count_lf(f, o) == i
        })
        decreases i
    {
        let f = full(ls, cr, fin);
        let o = off(ls, cr, fin, i);
        let n = ls[i].len() as int;
        lemma_line_at(ls, cr, fin, i);
        let e = o + n + (if cr[i] { 1int } else { 0int });      // end of the raw line
        assert forall|j: int| o <= j < e implies f[j] != 10u8 by {
            if j < o + n { assert(f.subrange(o, o + n)[j - o] == f[j]); }
        }
        if i + 1 < ls.len() || fin {
            assert(e == off(ls, cr, fin, i + 1) - 1);
            lemma_nl_is(f, o, e);
        } else {
            lemma_text_prefix(ls, cr, fin, i + 1, ls.len() as int);
            assert(e == f.len());
            lemma_nl_is(f, o, e);
        }
        let raw = f.subrange(o, e);
        assert(raw.subrange(0, n) =~= ls[i]) by {
            assert forall|k: int| 0 <= k < n implies raw.subrange(0, n)[k] == ls[i][k] by { assert(f.subrange(o, o + n)[k] == f[o + k]); }
        }
        if cr[i] {
            assert(raw[raw.len() - 1] == 13u8);
            assert(trim(raw) =~= ls[i]);
        } else {
            assert(raw =~= ls[i]);
            assert(trim(raw) == ls[i]);
        }
        if n > 0 { assert(f.subrange(o, o + n)[0] == f[o]); }
        // line number
        if i == 0 {
            lemma_off_step(ls, cr, fin, 0);
        } else {
            lemma_line_rules(ls, cr, fin, i - 1);
            let o0 = off(ls, cr, fin, i - 1);
            assert(nl(f, o0) == o - 1);
            lemma_count_lf_line(f, o0);
        }
    }


    // ---------------------------------------------------------------------------------------------
    // C12 (FASTQ): the rule functions read a list of records back from its text, for LF and for CRLF, with or
    // without a terminator after the last line
    // ---------------------------------------------------------------------------------------------
    /// one record as its four lines: '@' + header, sequence, '+' + anything, quality
    pub struct FqRec { pub head: Seq<u8>, pub seq: Seq<u8>, pub sep: Seq<u8>, pub qual: Seq<u8> }
    pub open spec fn fq_lines(rs: Seq<FqRec>) -> Seq<Seq<u8>> {
        Seq::new((4 * rs.len()) as nat, |i: int| {
            let r = rs[i / 4];
            if i % 4 == 0 { seq![64u8] + r.head } else if i % 4 == 1 { r.seq } else if i % 4 == 2 { seq![43u8] + r.sep } else { r.qual }
        })
    }
    /// every line CRLF-terminated (crlf) or LF-terminated (!crlf); an unterminated last line carries no CR
    pub open spec fn uniform(n: nat, crlf: bool, fin: bool) -> Seq<bool> {
        Seq::new(n, |i: int| crlf && (i + 1 < n || fin))
    }
    /// field restrictions of the property: no LF inside fields, no field ends in CR, equal lengths
    pub open spec fn fq_fields_ok(rs: Seq<FqRec>) -> bool {
        forall|k: int| 0 <= k < rs.len() ==> {
            let r = #[trigger] rs[k];
            &&& r.seq.len() == r.qual.len()
            &&& (forall|j: int| 0 <= j < r.head.len() ==> r.head[j] != 10u8) && (forall|j: int| 0 <= j < r.seq.len() ==> r.seq[j] != 10u8)
            &&& (forall|j: int| 0 <= j < r.sep.len() ==> r.sep[j] != 10u8) && (forall|j: int| 0 <= j < r.qual.len() ==> r.qual[j] != 10u8)
            &&& !ends_cr(seq![64u8] + r.head) && !ends_cr(r.seq) && !ends_cr(seq![43u8] + r.sep) && !ends_cr(r.qual)
        }
    }

    /// the text of the record list, and the offset of its k-th record
    pub open spec fn fq_text(rs: Seq<FqRec>, crlf: bool, fin: bool) -> Seq<u8> { full(fq_lines(rs), uniform(4 * rs.len(), crlf, fin), fin) }
    pub open spec fn fq_off(rs: Seq<FqRec>, crlf: bool, fin: bool, k: int) -> int { off(fq_lines(rs), uniform(4 * rs.len(), crlf, fin), fin, 4 * k) }

    proof fn lemma_fq_lines_ok(rs: Seq<FqRec>, crlf: bool, fin: bool)
        requires fq_fields_ok(rs)
        ensures lines_ok(fq_lines(rs), uniform(4 * rs.len(), crlf, fin), fin)
    {
        let ls = fq_lines(rs);
        assert forall|i: int, j: int| 0 <= i < ls.len() && 0 <= j < ls[i].len() implies (#[trigger] ls[i][j]) != 10u8 by {
            let r = rs[i / 4];
            if i % 4 == 0 { if j > 0 { assert(r.head[j - 1] != 10u8); } }
            else if i % 4 == 2 { if j > 0 { assert(r.sep[j - 1] != 10u8); } }
        }
        assert forall|i: int| 0 <= i < ls.len() && (#[trigger] ls[i]).len() > 0 implies ls[i][ls[i].len() - 1] != 13u8 by {
            let r = rs[i / 4];
        }
    }

    /// dropping the first byte commutes with trimming (the first byte is not a CR)
    proof fn lemma_trim_drop_first(raw: Seq<u8>)
        requires raw.len() >= 1, raw[0] != 13u8
        ensures trim(raw.subrange(1, raw.len() as int)) == trim(raw).subrange(1, trim(raw).len() as int)
    {
        let h = raw.subrange(1, raw.len() as int);
        if raw.len() >= 2 {
            assert(h[h.len() - 1] == raw[raw.len() - 1]);
            if raw[raw.len() - 1] == 13u8 {
                assert(trim(h) =~= raw.subrange(1, raw.len() - 1));
                assert(trim(raw).subrange(1, trim(raw).len() as int) =~= raw.subrange(1, raw.len() - 1));
            } else {
                assert(trim(raw).subrange(1, trim(raw).len() as int) =~= h);
            }
        } else {
            assert(trim(raw).subrange(1, trim(raw).len() as int) =~= h);
        }
    }

    /// the four lines of record k
    proof fn lemma_fq_line(rs: Seq<FqRec>, k: int)
        requires 0 <= k < rs.len()
        ensures fq_lines(rs).len() == 4 * rs.len(),
                fq_lines(rs)[4 * k] == seq![64u8] + rs[k].head, fq_lines(rs)[4 * k + 1] == rs[k].seq,
                fq_lines(rs)[4 * k + 2] == seq![43u8] + rs[k].sep, fq_lines(rs)[4 * k + 3] == rs[k].qual,
    {
        assert((4 * k) / 4 == k && (4 * k) % 4 == 0);
        assert((4 * k + 1) / 4 == k && (4 * k + 1) % 4 == 1);
        assert((4 * k + 2) / 4 == k && (4 * k + 2) % 4 == 2);
        assert((4 * k + 3) / 4 == k && (4 * k + 3) % 4 == 3);
    }

    /// where the four line ends of record k are, and what the raw lines trim to
    proof fn lemma_fq_record(rs: Seq<FqRec>, crlf: bool, fin: bool, k: int)
        requires fq_fields_ok(rs), 0 <= k < rs.len()
        ensures ({
            let ls = fq_lines(rs); let cr = uniform(4 * rs.len(), crlf, fin); let f = fq_text(rs, crlf, fin); let p = fq_off(rs, crlf, fin, k);
            &&& 0 <= p < f.len() && count_lf(f, p) == 4 * k
            &&& c1(f, p) + 1 == off(ls, cr, fin, 4 * k + 1) && c2(f, p) + 1 == off(ls, cr, fin, 4 * k + 2) && c3(f, p) + 1 == off(ls, cr, fin, 4 * k + 3)
            &&& c3(f, p) < f.len() && p < c1(f, p)
            &&& (k + 1 < rs.len() || fin ==> c4(f, p) + 1 == off(ls, cr, fin, 4 * k + 4) && c4(f, p) < f.len())
            &&& (!(k + 1 < rs.len() || fin) ==> c4(f, p) == f.len())
            &&& trim(f.subrange(p, c1(f, p))) == seq![64u8] + rs[k].head
            &&& g_seq(f, p) == rs[k].seq && g_qual(f, p) == rs[k].qual
            &&& f[p] == 64u8 && f[c2(f, p) + 1] == 43u8
            &&& g_seq_cr(f, p) == cr[4 * k + 1] && g_qual_cr(f, p) == cr[4 * k + 3]
        })
    {
        let ls = fq_lines(rs); let cr = uniform(4 * rs.len(), crlf, fin);
        lemma_fq_lines_ok(rs, crlf, fin);
        lemma_fq_line(rs, k);
        lemma_line_rules(ls, cr, fin, 4 * k);
        lemma_line_rules(ls, cr, fin, 4 * k + 1);
        lemma_line_rules(ls, cr, fin, 4 * k + 2);
        lemma_line_rules(ls, cr, fin, 4 * k + 3);
        assert(ls[4 * k][0] == 64u8);
        assert(ls[4 * k + 2][0] == 43u8);
    }

    /// the k-th record of the text: where it starts, what the rules read there, which line it is on
    pub proof fn lemma_fastq_text(rs: Seq<FqRec>, crlf: bool, fin: bool, k: int)
        requires fq_fields_ok(rs), 0 <= k < rs.len()
        ensures
            [C12,C02|lemma.fastq_text.record_k_is_read_back] gstart(fq_text(rs, crlf, fin), 0, k) == fq_off(rs, crlf, fin, k)
                && group_complete(fq_text(rs, crlf, fin), fq_off(rs, crlf, fin, k)) && vok(fq_text(rs, crlf, fin), fq_off(rs, crlf, fin, k))
                && g_head(fq_text(rs, crlf, fin), fq_off(rs, crlf, fin, k)) == rs[k].head
                && g_seq(fq_text(rs, crlf, fin), fq_off(rs, crlf, fin, k)) == rs[k].seq
                && g_qual(fq_text(rs, crlf, fin), fq_off(rs, crlf, fin, k)) == rs[k].qual,
            [C12,C17|lemma.fastq_text.line_number] true_line(fq_text(rs, crlf, fin), fq_off(rs, crlf, fin, k)) == 4 * k + 1,
            [C12,C02|lemma.fastq_text.next_start] k + 1 < rs.len() ==> c4(fq_text(rs, crlf, fin), fq_off(rs, crlf, fin, k)) + 1 == fq_off(rs, crlf, fin, k + 1),
            [C12,C02|lemma.fastq_text.end] k + 1 == rs.len() ==> end_ok(fq_text(rs, crlf, fin), c4(fq_text(rs, crlf, fin), fq_off(rs, crlf, fin, k)) + 1),
        decreases k
    {
        let f = fq_text(rs, crlf, fin);
        let p = fq_off(rs, crlf, fin, k);
        lemma_fq_record(rs, crlf, fin, k);
        // header: the line without its first byte
        let raw0 = f.subrange(p, c1(f, p));
        assert(raw0[0] == f[p]);
        lemma_trim_drop_first(raw0);
        assert(raw0.subrange(1, raw0.len() as int) =~= f.subrange(p + 1, c1(f, p)));
        assert((seq![64u8] + rs[k].head).subrange(1, rs[k].head.len() as int + 1) =~= rs[k].head);
        // length verdict
        assert(may_accept(f, p)) by { reveal(may_accept); }
        // position in the stream
        if k == 0 {
            lemma_off_step(fq_lines(rs), uniform(4 * rs.len(), crlf, fin), fin, 0);
        } else {
            lemma_fastq_text(rs, crlf, fin, k - 1);
        }
    }

    } // verus!
}
