// =====================================================================================================
// /verif/contracts/60_lemmas.rs — lemmas over the contracts (no code of /repo in this file)
//
// The reader contracts say: next() returns the record that the format rules define at the reader's file
// cursor (g_head / g_seq / g_qual / vok / gstart / end_ok for FASTQ, fa_start / fa_rec_head / fa_rec_lines
// for FASTA, true_line for positions).  The lemmas here are statements about those rule functions
// themselves: what they yield on a text given as a list of lines with arbitrary LF / CRLF endings (C12),
// and on the text the writer contracts say is produced (C10, C11).
// =====================================================================================================
pub mod lemmas {
    use vstd::prelude::*;
    use super::spec::*;
    use super::fastq::{c1, c2, c3, c4, g_head, g_seq, g_qual, vok, group_complete, gstart, end_ok, may_accept, same_term, trimmed_eq,
                       g_seq_cr, g_qual_cr, ends_cr, fq_render};
    use super::fasta::{lfs, first_nonblank, fa_bnd, fa_start, fa_lines, fa_rec_head, fa_rec_lines, lemma_lfs_skip, lemma_lfs_bounds,
                       lemma_fnb_here, lemma_fnb_skip, lemma_fnb_tail, concat, fa_head_r, fa_render, wrap_lines};
    verus! {

    // ---------------------------------------------------------------------------------------------
    // texts as lists of lines
    // ---------------------------------------------------------------------------------------------
    /// line terminator: optional CR, optional LF
    pub open spec fn term(cr: bool, lf: bool) -> Seq<u8> {
        (if cr { seq![13u8] } else { Seq::<u8>::empty() }) + (if lf { seq![10u8] } else { Seq::<u8>::empty() })
    }
    /// the first n lines of ls as text: line i is followed by CR if cr[i], and by LF unless it is the last line and !fin
    pub open spec fn text(ls: Seq<Seq<u8>>, cr: Seq<bool>, fin: bool, n: int) -> Seq<u8>
        decreases n
    {
        if n <= 0 { Seq::<u8>::empty() } else { text(ls, cr, fin, n - 1) + ls[n - 1] + term(cr[n - 1], n < ls.len() || fin) }
    }
    /// offset of line i
    pub open spec fn off(ls: Seq<Seq<u8>>, cr: Seq<bool>, fin: bool, i: int) -> int { text(ls, cr, fin, i).len() as int }
    /// the whole text
    pub open spec fn full(ls: Seq<Seq<u8>>, cr: Seq<bool>, fin: bool) -> Seq<u8> { text(ls, cr, fin, ls.len() as int) }
    /// lines contain no LF and do not end in CR; an unterminated last line has no CR either
    pub open spec fn lines_ok(ls: Seq<Seq<u8>>, cr: Seq<bool>, fin: bool) -> bool {
        &&& cr.len() == ls.len()
        &&& forall|i: int, j: int| 0 <= i < ls.len() && 0 <= j < ls[i].len() ==> (#[trigger] ls[i][j]) != 10u8
        &&& forall|i: int| 0 <= i < ls.len() ==> (#[trigger] ls[i]).len() > 0 ==> ls[i][ls[i].len() - 1] != 13u8
        &&& (!fin && ls.len() > 0 ==> !cr[ls.len() - 1])
    }
    /// number of terminator bytes of line i
    pub open spec fn tlen(ls: Seq<Seq<u8>>, cr: Seq<bool>, fin: bool, i: int) -> int {
        (if cr[i] { 1int } else { 0int }) + (if i + 1 < ls.len() || fin { 1int } else { 0int })
    }

    pub proof fn lemma_off_step(ls: Seq<Seq<u8>>, cr: Seq<bool>, fin: bool, i: int)
        requires 0 <= i < ls.len()
        ensures off(ls, cr, fin, i + 1) == off(ls, cr, fin, i) + ls[i].len() + tlen(ls, cr, fin, i),
                off(ls, cr, fin, 0) == 0, off(ls, cr, fin, i) >= 0
    {
        assert(text(ls, cr, fin, i + 1) == text(ls, cr, fin, i) + ls[i] + term(cr[i], i + 1 < ls.len() || fin));
    }

    /// text(n) starts with text(i)
    pub proof fn lemma_text_prefix(ls: Seq<Seq<u8>>, cr: Seq<bool>, fin: bool, i: int, n: int)
        requires 0 <= i <= n <= ls.len()
        ensures off(ls, cr, fin, i) <= off(ls, cr, fin, n),
                text(ls, cr, fin, n).subrange(0, off(ls, cr, fin, i)) == text(ls, cr, fin, i)
        decreases n - i
    {
        if i < n {
            lemma_text_prefix(ls, cr, fin, i, n - 1);
            let a = text(ls, cr, fin, n - 1);
            let b = ls[n - 1] + term(cr[n - 1], n < ls.len() || fin);
            assert(text(ls, cr, fin, n) =~= a + b);
            assert((a + b).subrange(0, off(ls, cr, fin, i)) =~= a.subrange(0, off(ls, cr, fin, i)));
        } else {
            assert(text(ls, cr, fin, n).subrange(0, off(ls, cr, fin, i)) =~= text(ls, cr, fin, i));
        }
    }

    /// where line i sits in the whole text: its bytes, then CR (if any), then LF (if any)
    pub proof fn lemma_line_at(ls: Seq<Seq<u8>>, cr: Seq<bool>, fin: bool, i: int)
        requires 0 <= i < ls.len(), cr.len() == ls.len()
        ensures ({
            let f = full(ls, cr, fin); let o = off(ls, cr, fin, i); let n = ls[i].len() as int;
            &&& 0 <= o && o + n + tlen(ls, cr, fin, i) == off(ls, cr, fin, i + 1) <= f.len()
            &&& f.subrange(o, o + n) == ls[i]
            &&& (cr[i] ==> f[o + n] == 13u8)
            &&& (i + 1 < ls.len() || fin ==> f[off(ls, cr, fin, i + 1) - 1] == 10u8)
        })
    {
        let f = full(ls, cr, fin);
        let o = off(ls, cr, fin, i);
        let n = ls[i].len() as int;
        lemma_off_step(ls, cr, fin, i);
        lemma_text_prefix(ls, cr, fin, i + 1, ls.len() as int);
        lemma_text_prefix(ls, cr, fin, i, i + 1);
        let t1 = text(ls, cr, fin, i + 1);
        let tm = term(cr[i], i + 1 < ls.len() || fin);
        assert(t1 =~= text(ls, cr, fin, i) + ls[i] + tm);
        assert(f.subrange(0, t1.len() as int) == t1);
        assert forall|k: int| 0 <= k < t1.len() implies f[k] == t1[k] by { assert(f.subrange(0, t1.len() as int)[k] == f[k]); }
        assert(f.subrange(o, o + n) =~= ls[i]) by {
            assert forall|k: int| 0 <= k < n implies f.subrange(o, o + n)[k] == ls[i][k] by { assert(t1[o + k] == ls[i][k]); }
        }
        if cr[i] { assert(t1[o + n] == tm[0]); }
        if i + 1 < ls.len() || fin { assert(t1[t1.len() - 1] == tm[tm.len() - 1]); }
    }

    /// the line rules (nl, trim, line numbers) read line i back, whatever the terminators are
    pub proof fn lemma_line_rules(ls: Seq<Seq<u8>>, cr: Seq<bool>, fin: bool, i: int)
        requires 0 <= i < ls.len(), lines_ok(ls, cr, fin)
        ensures ({
            let f = full(ls, cr, fin); let o = off(ls, cr, fin, i);
            &&& 0 <= o <= f.len()
            &&& (i + 1 < ls.len() || fin ==> nl(f, o) == off(ls, cr, fin, i + 1) - 1 && nl(f, o) < f.len())
            &&& (!(i + 1 < ls.len() || fin) ==> nl(f, o) == f.len() && off(ls, cr, fin, i + 1) == f.len())
            &&& trim(f.subrange(o, nl(f, o))) == ls[i]
            &&& ends_cr(f.subrange(o, nl(f, o))) == cr[i]
            &&& (ls[i].len() > 0 ==> o < f.len() && f[o] == ls[i][0])
            &&& count_lf(f, o) == i
        })
        decreases i
    {
        let f = full(ls, cr, fin);
        let o = off(ls, cr, fin, i);
        let n = ls[i].len() as int;
        lemma_line_at(ls, cr, fin, i);
        let e = o + n + (if cr[i] { 1int } else { 0int });      // end of the raw line
        assert forall|j: int| o <= j < e implies f[j] != 10u8 by {
            if j < o + n { assert(f.subrange(o, o + n)[j - o] == f[j]); }
        }
        if i + 1 < ls.len() || fin {
            assert(e == off(ls, cr, fin, i + 1) - 1);
            lemma_nl_is(f, o, e);
        } else {
            lemma_text_prefix(ls, cr, fin, i + 1, ls.len() as int);
            assert(e == f.len());
            lemma_nl_is(f, o, e);
        }
        let raw = f.subrange(o, e);
        assert(raw.subrange(0, n) =~= ls[i]) by {
            assert forall|k: int| 0 <= k < n implies raw.subrange(0, n)[k] == ls[i][k] by { assert(f.subrange(o, o + n)[k] == f[o + k]); }
        }
        if cr[i] {
            assert(raw[raw.len() - 1] == 13u8);
            assert(trim(raw) =~= ls[i]);
        } else {
            assert(raw =~= ls[i]);
            assert(trim(raw) == ls[i]);
        }
        if n > 0 { assert(f.subrange(o, o + n)[0] == f[o]); }
        // line number
        if i == 0 {
            lemma_off_step(ls, cr, fin, 0);
        } else {
            lemma_line_rules(ls, cr, fin, i - 1);
            let o0 = off(ls, cr, fin, i - 1);
            assert(nl(f, o0) == o - 1);
            lemma_count_lf_line(f, o0);
        }
    }


    // ---------------------------------------------------------------------------------------------
    // C12 (FASTQ): the rule functions read a list of records back from its text, for LF and for CRLF, with or
    // without a terminator after the last line
    // ---------------------------------------------------------------------------------------------
    /// one record as its four lines: '@' + header, sequence, '+' + anything, quality
    pub struct FqRec { pub head: Seq<u8>, pub seq: Seq<u8>, pub sep: Seq<u8>, pub qual: Seq<u8> }
    pub open spec fn fq_lines(rs: Seq<FqRec>) -> Seq<Seq<u8>> {
        Seq::new((4 * rs.len()) as nat, |i: int| {
            let r = rs[i / 4];
            if i % 4 == 0 { seq![64u8] + r.head } else if i % 4 == 1 { r.seq } else if i % 4 == 2 { seq![43u8] + r.sep } else { r.qual }
        })
    }
    /// every line CRLF-terminated (crlf) or LF-terminated (!crlf); an unterminated last line carries no CR
    pub open spec fn uniform(n: nat, crlf: bool, fin: bool) -> Seq<bool> {
        Seq::new(n, |i: int| crlf && (i + 1 < n || fin))
    }
    /// field restrictions of the property: no LF inside fields, no field ends in CR, equal lengths
    pub open spec fn fq_fields_ok(rs: Seq<FqRec>) -> bool {
        forall|k: int| 0 <= k < rs.len() ==> {
            let r = #[trigger] rs[k];
            &&& r.seq.len() == r.qual.len()
            &&& (forall|j: int| 0 <= j < r.head.len() ==> r.head[j] != 10u8) && (forall|j: int| 0 <= j < r.seq.len() ==> r.seq[j] != 10u8)
            &&& (forall|j: int| 0 <= j < r.sep.len() ==> r.sep[j] != 10u8) && (forall|j: int| 0 <= j < r.qual.len() ==> r.qual[j] != 10u8)
            &&& !ends_cr(seq![64u8] + r.head) && !ends_cr(r.seq) && !ends_cr(seq![43u8] + r.sep) && !ends_cr(r.qual)
        }
    }

    /// the text of the record list, and the offset of its k-th record
    pub open spec fn fq_text(rs: Seq<FqRec>, crlf: bool, fin: bool) -> Seq<u8> { full(fq_lines(rs), uniform(4 * rs.len(), crlf, fin), fin) }
    pub open spec fn fq_off(rs: Seq<FqRec>, crlf: bool, fin: bool, k: int) -> int { off(fq_lines(rs), uniform(4 * rs.len(), crlf, fin), fin, 4 * k) }

    proof fn lemma_fq_lines_ok(rs: Seq<FqRec>, crlf: bool, fin: bool)
        requires fq_fields_ok(rs)
        ensures lines_ok(fq_lines(rs), uniform(4 * rs.len(), crlf, fin), fin)
    {
        let ls = fq_lines(rs);
        assert forall|i: int, j: int| 0 <= i < ls.len() && 0 <= j < ls[i].len() implies (#[trigger] ls[i][j]) != 10u8 by {
            let r = rs[i / 4];
            if i % 4 == 0 { if j > 0 { assert(r.head[j - 1] != 10u8); } }
            else if i % 4 == 2 { if j > 0 { assert(r.sep[j - 1] != 10u8); } }
        }
        assert forall|i: int| 0 <= i < ls.len() && (#[trigger] ls[i]).len() > 0 implies ls[i][ls[i].len() - 1] != 13u8 by {
            let r = rs[i / 4];
        }
    }

    /// dropping the first byte commutes with trimming (the first byte is not a CR)
    proof fn lemma_trim_drop_first(raw: Seq<u8>)
        requires raw.len() >= 1, raw[0] != 13u8
        ensures trim(raw.subrange(1, raw.len() as int)) == trim(raw).subrange(1, trim(raw).len() as int)
    {
        let h = raw.subrange(1, raw.len() as int);
        if raw.len() >= 2 {
            assert(h[h.len() - 1] == raw[raw.len() - 1]);
            if raw[raw.len() - 1] == 13u8 {
                assert(trim(h) =~= raw.subrange(1, raw.len() - 1));
                assert(trim(raw).subrange(1, trim(raw).len() as int) =~= raw.subrange(1, raw.len() - 1));
            } else {
                assert(trim(raw).subrange(1, trim(raw).len() as int) =~= h);
            }
        } else {
            assert(trim(raw).subrange(1, trim(raw).len() as int) =~= h);
        }
    }

    /// the four lines of record k
    proof fn lemma_fq_line(rs: Seq<FqRec>, k: int)
        requires 0 <= k < rs.len()
        ensures fq_lines(rs).len() == 4 * rs.len(),
                fq_lines(rs)[4 * k] == seq![64u8] + rs[k].head, fq_lines(rs)[4 * k + 1] == rs[k].seq,
                fq_lines(rs)[4 * k + 2] == seq![43u8] + rs[k].sep, fq_lines(rs)[4 * k + 3] == rs[k].qual,
    {
        assert((4 * k) / 4 == k && (4 * k) % 4 == 0);
        assert((4 * k + 1) / 4 == k && (4 * k + 1) % 4 == 1);
        assert((4 * k + 2) / 4 == k && (4 * k + 2) % 4 == 2);
        assert((4 * k + 3) / 4 == k && (4 * k + 3) % 4 == 3);
    }

    /// where the four line ends of record k are, and what the raw lines trim to
    proof fn lemma_fq_record(rs: Seq<FqRec>, crlf: bool, fin: bool, k: int)
        requires fq_fields_ok(rs), 0 <= k < rs.len()
        ensures ({
            let ls = fq_lines(rs); let cr = uniform(4 * rs.len(), crlf, fin); let f = fq_text(rs, crlf, fin); let p = fq_off(rs, crlf, fin, k);
            &&& 0 <= p < f.len() && count_lf(f, p) == 4 * k
            &&& c1(f, p) + 1 == off(ls, cr, fin, 4 * k + 1) && c2(f, p) + 1 == off(ls, cr, fin, 4 * k + 2) && c3(f, p) + 1 == off(ls, cr, fin, 4 * k + 3)
            &&& c3(f, p) < f.len() && p < c1(f, p)
            &&& (k + 1 < rs.len() || fin ==> c4(f, p) + 1 == off(ls, cr, fin, 4 * k + 4) && c4(f, p) < f.len())
            &&& (!(k + 1 < rs.len() || fin) ==> c4(f, p) == f.len())
            &&& trim(f.subrange(p, c1(f, p))) == seq![64u8] + rs[k].head
            &&& g_seq(f, p) == rs[k].seq && g_qual(f, p) == rs[k].qual
            &&& f[p] == 64u8 && f[c2(f, p) + 1] == 43u8
            &&& g_seq_cr(f, p) == cr[4 * k + 1] && g_qual_cr(f, p) == cr[4 * k + 3]
        })
    {
        let ls = fq_lines(rs); let cr = uniform(4 * rs.len(), crlf, fin);
        lemma_fq_lines_ok(rs, crlf, fin);
        lemma_fq_line(rs, k);
        lemma_line_rules(ls, cr, fin, 4 * k);
        lemma_line_rules(ls, cr, fin, 4 * k + 1);
        lemma_line_rules(ls, cr, fin, 4 * k + 2);
        lemma_line_rules(ls, cr, fin, 4 * k + 3);
        assert(ls[4 * k][0] == 64u8);
        assert(ls[4 * k + 2][0] == 43u8);
    }

    /// what the rules read at the offset of record k (no induction)
    proof fn lemma_fastq_fields(rs: Seq<FqRec>, crlf: bool, fin: bool, k: int)
        requires fq_fields_ok(rs), 0 <= k < rs.len()
        ensures ({
            let f = fq_text(rs, crlf, fin); let p = fq_off(rs, crlf, fin, k);
            &&& group_complete(f, p) && vok(f, p)
            &&& g_head(f, p) == rs[k].head && g_seq(f, p) == rs[k].seq && g_qual(f, p) == rs[k].qual
            &&& true_line(f, p) == 4 * k + 1
            &&& (k + 1 < rs.len() ==> c4(f, p) + 1 == fq_off(rs, crlf, fin, k + 1))
            &&& (k + 1 == rs.len() ==> c4(f, p) + 1 >= f.len())
        })
    {
        let f = fq_text(rs, crlf, fin);
        let p = fq_off(rs, crlf, fin, k);
        lemma_fq_record(rs, crlf, fin, k);
        // header: the line without its first byte
        let raw0 = f.subrange(p, c1(f, p));
        assert(raw0[0] == f[p]);
        lemma_trim_drop_first(raw0);
        assert(raw0.subrange(1, raw0.len() as int) =~= f.subrange(p + 1, c1(f, p)));
        assert((seq![64u8] + rs[k].head).subrange(1, rs[k].head.len() as int + 1) =~= rs[k].head);
        // length verdict
        assert(may_accept(f, p)) by { reveal(may_accept); }
        if k + 1 == rs.len() {
            lemma_full_len0(fq_lines(rs), uniform(4 * rs.len(), crlf, fin), fin);
            lemma_fq_line(rs, k);
        }
    }
    proof fn lemma_full_len0(ls: Seq<Seq<u8>>, cr: Seq<bool>, fin: bool)
        ensures off(ls, cr, fin, ls.len() as int) == full(ls, cr, fin).len()
    { }

    /// the k-th record of the text: where it starts, what the rules read there, which line it is on
    pub proof fn lemma_fastq_text(rs: Seq<FqRec>, crlf: bool, fin: bool, k: int)
        requires fq_fields_ok(rs), 0 <= k < rs.len()
        ensures
            [C12,C02|lemma.fastq_text.record_k_is_read_back] gstart(fq_text(rs, crlf, fin), 0, k) == fq_off(rs, crlf, fin, k)
                && group_complete(fq_text(rs, crlf, fin), fq_off(rs, crlf, fin, k)) && vok(fq_text(rs, crlf, fin), fq_off(rs, crlf, fin, k))
                && g_head(fq_text(rs, crlf, fin), fq_off(rs, crlf, fin, k)) == rs[k].head
                && g_seq(fq_text(rs, crlf, fin), fq_off(rs, crlf, fin, k)) == rs[k].seq
                && g_qual(fq_text(rs, crlf, fin), fq_off(rs, crlf, fin, k)) == rs[k].qual,
            [C12,C17|lemma.fastq_text.line_number] true_line(fq_text(rs, crlf, fin), fq_off(rs, crlf, fin, k)) == 4 * k + 1,
            [C12,C02|lemma.fastq_text.next_start] k + 1 < rs.len() ==> c4(fq_text(rs, crlf, fin), fq_off(rs, crlf, fin, k)) + 1 == fq_off(rs, crlf, fin, k + 1),
            [C12,C02|lemma.fastq_text.end] k + 1 == rs.len() ==> end_ok(fq_text(rs, crlf, fin), c4(fq_text(rs, crlf, fin), fq_off(rs, crlf, fin, k)) + 1),
        decreases k
    {
        let f = fq_text(rs, crlf, fin);
        lemma_fastq_fields(rs, crlf, fin, k);
        if k == 0 {
            assert(fq_off(rs, crlf, fin, 0) == 0);
        } else {
            lemma_fastq_text(rs, crlf, fin, k - 1);
            assert(gstart(f, 0, k) == c4(f, gstart(f, 0, k - 1)) + 1);
        }
    }

    /// C12, FASTQ, in one statement: the LF text and the CRLF text of the same records, each with or without a final terminator,
    /// are read as the same record at the same line
    pub proof fn lemma_fastq_lf_crlf_agree(rs: Seq<FqRec>, fin1: bool, fin2: bool, k: int)
        requires fq_fields_ok(rs), 0 <= k < rs.len()
        ensures
            [C12|lemma.fastq_lf_crlf.same_fields] ({
                let (f1, p1, f2, p2) = (fq_text(rs, false, fin1), fq_off(rs, false, fin1, k), fq_text(rs, true, fin2), fq_off(rs, true, fin2, k));
                p1 == gstart(f1, 0, k) && p2 == gstart(f2, 0, k)
                && g_head(f1, p1) == g_head(f2, p2) && g_seq(f1, p1) == g_seq(f2, p2) && g_qual(f1, p1) == g_qual(f2, p2)
                && vok(f1, p1) && vok(f2, p2) && group_complete(f1, p1) && group_complete(f2, p2)
            }),
            [C12|lemma.fastq_lf_crlf.same_line] true_line(fq_text(rs, false, fin1), fq_off(rs, false, fin1, k)) == true_line(fq_text(rs, true, fin2), fq_off(rs, true, fin2, k)),
            [C12|lemma.fastq_lf_crlf.no_cr_in_fields] !ends_cr(g_seq(fq_text(rs, true, fin2), fq_off(rs, true, fin2, k))) && !ends_cr(g_qual(fq_text(rs, true, fin2), fq_off(rs, true, fin2, k))),
    {
        lemma_fastq_text(rs, false, fin1, k);
        lemma_fastq_text(rs, true, fin2, k);
    }

    // ---------------------------------------------------------------------------------------------
    // C11 (FASTQ): what the writer contracts say is written, fq_render(h, s, q) record after record, is the LF text of those
    // records (separator line "+", final terminator present), so by lemma_fastq_text it is read back field by field
    // ---------------------------------------------------------------------------------------------
    pub open spec fn fq_render_all(rs: Seq<FqRec>, n: int) -> Seq<u8>
        decreases n
    {
        if n <= 0 { Seq::<u8>::empty() } else { fq_render_all(rs, n - 1) + fq_render(rs[n - 1].head, rs[n - 1].seq, rs[n - 1].qual) }
    }
    pub open spec fn plain_sep(rs: Seq<FqRec>) -> bool { forall|k: int| 0 <= k < rs.len() ==> (#[trigger] rs[k]).sep.len() == 0 }

    proof fn lemma_render_is_text(rs: Seq<FqRec>, n: int)
        requires 0 <= n <= rs.len(), plain_sep(rs)
        ensures fq_render_all(rs, n) == text(fq_lines(rs), uniform(4 * rs.len(), false, true), true, 4 * n)
        decreases n
    {
        let ls = fq_lines(rs); let cr = uniform(4 * rs.len(), false, true);
        if n > 0 {
            lemma_render_is_text(rs, n - 1);
            lemma_fq_line(rs, n - 1);
            let t0 = text(ls, cr, true, 4 * n - 4);
            let lf = seq![10u8];
            assert(term(false, true) =~= lf);
            assert(text(ls, cr, true, 4 * n - 3) == t0 + ls[4 * n - 4] + lf);
            assert(text(ls, cr, true, 4 * n - 2) == text(ls, cr, true, 4 * n - 3) + ls[4 * n - 3] + lf);
            assert(text(ls, cr, true, 4 * n - 1) == text(ls, cr, true, 4 * n - 2) + ls[4 * n - 2] + lf);
            assert(text(ls, cr, true, 4 * n) == text(ls, cr, true, 4 * n - 1) + ls[4 * n - 1] + lf);
            let r = rs[n - 1];
            assert(seq![43u8] + r.sep =~= seq![43u8]);
            assert(t0 + (seq![64u8] + r.head) + lf + r.seq + lf + seq![43u8] + lf + r.qual + lf
                   =~= t0 + (seq![64u8] + r.head + seq![10u8] + r.seq + seq![10u8, 43u8, 10u8] + r.qual + seq![10u8]));
        }
    }

    /// written records are read back: the k-th record of the rendered text is exactly (head, seq, qual) of the k-th record written
    pub proof fn lemma_fastq_roundtrip(rs: Seq<FqRec>, k: int)
        requires fq_fields_ok(rs), plain_sep(rs), 0 <= k < rs.len()
        ensures
            [C11|lemma.fastq_roundtrip] ({
                let f = fq_render_all(rs, rs.len() as int); let p = gstart(f, 0, k);
                group_complete(f, p) && vok(f, p) && g_head(f, p) == rs[k].head && g_seq(f, p) == rs[k].seq && g_qual(f, p) == rs[k].qual
                && (k + 1 == rs.len() ==> end_ok(f, c4(f, p) + 1))
            }),
    {
        lemma_render_is_text(rs, rs.len() as int);
        lemma_fastq_text(rs, false, true, k);
    }


    // ---- C11, second half: writing every parsed record unchanged reproduces the input ------------------------------------
    /// the same lines with a terminator after the last line: only the end of the text differs
    proof fn lemma_text_fin(ls: Seq<Seq<u8>>, cr: Seq<bool>, fin: bool, m: int)
        requires 0 <= m <= ls.len()
        ensures m < ls.len() ==> text(ls, cr, true, m) == text(ls, cr, fin, m),
                m == ls.len() ==> text(ls, cr, true, m) == text(ls, cr, fin, m) + (if fin || m == 0 { Seq::<u8>::empty() } else { seq![10u8] }),
        decreases m
    {
        if m > 0 {
            lemma_text_fin(ls, cr, fin, m - 1);
            if m == ls.len() && !fin {
                assert(term(cr[m - 1], true) =~= term(cr[m - 1], false) + seq![10u8]);
                assert(text(ls, cr, true, m) =~= text(ls, cr, fin, m) + seq![10u8]);
            } else {
                assert(text(ls, cr, true, m) =~= text(ls, cr, fin, m));
            }
        } else {
            assert(text(ls, cr, true, m) =~= text(ls, cr, fin, m) + Seq::<u8>::empty());
        }
    }
    /// a stretch of the text between two line starts
    proof fn lemma_text_segment(ls: Seq<Seq<u8>>, cr: Seq<bool>, fin: bool, i: int, j: int)
        requires 0 <= i <= j <= ls.len()
        ensures text(ls, cr, fin, j) == text(ls, cr, fin, i) + full(ls, cr, fin).subrange(off(ls, cr, fin, i), off(ls, cr, fin, j)),
                off(ls, cr, fin, i) <= off(ls, cr, fin, j) <= full(ls, cr, fin).len()
    {
        let f = full(ls, cr, fin);
        lemma_text_prefix(ls, cr, fin, i, j);
        lemma_text_prefix(ls, cr, fin, j, ls.len() as int);
        lemma_text_prefix(ls, cr, fin, i, ls.len() as int);
        let (a, b) = (off(ls, cr, fin, i), off(ls, cr, fin, j));
        assert(text(ls, cr, fin, j) =~= f.subrange(0, b));
        assert(text(ls, cr, fin, i) =~= f.subrange(0, a));
        assert(f.subrange(0, b) =~= f.subrange(0, a) + f.subrange(a, b));
    }
    /// what write_unchanged appends for the k-th record, by its contract: the bytes from its '@' to the end of its quality line, then LF
    pub open spec fn fq_unchanged(rs: Seq<FqRec>, crlf: bool, fin: bool, k: int) -> Seq<u8> {
        let f = fq_text(rs, crlf, fin); let p = fq_off(rs, crlf, fin, k);
        f.subrange(p, c4(f, p)) + seq![10u8]
    }
    pub open spec fn fq_unchanged_all(rs: Seq<FqRec>, crlf: bool, fin: bool, k: int) -> Seq<u8>
        decreases k
    {
        if k <= 0 { Seq::<u8>::empty() } else { fq_unchanged_all(rs, crlf, fin, k - 1) + fq_unchanged(rs, crlf, fin, k - 1) }
    }
    /// where record k ends in the text
    proof fn lemma_fq_extent(rs: Seq<FqRec>, crlf: bool, fin: bool, k: int)
        requires fq_fields_ok(rs), 0 <= k < rs.len()
        ensures ({
            let ls = fq_lines(rs); let cr = uniform(4 * rs.len(), crlf, fin); let f = fq_text(rs, crlf, fin); let p = fq_off(rs, crlf, fin, k);
            let e = off(ls, cr, fin, 4 * k + 4);
            &&& 0 <= p <= c4(f, p) <= f.len() && e <= f.len() && ls.len() == 4 * rs.len()
            &&& (k + 1 < rs.len() || fin ==> c4(f, p) + 1 == e && f[c4(f, p)] == 10u8)
            &&& (!(k + 1 < rs.len() || fin) ==> c4(f, p) == f.len() && e == f.len())
        })
    {
        let ls = fq_lines(rs); let cr = uniform(4 * rs.len(), crlf, fin); let f = fq_text(rs, crlf, fin);
        lemma_fq_record(rs, crlf, fin, k);
        lemma_fq_line(rs, k);
        lemma_full_len0(ls, cr, fin);
        lemma_text_prefix(ls, cr, fin, 4 * k + 4, ls.len() as int);
        lemma_nl_bounds(f, off(ls, cr, fin, 4 * k + 3));
        lemma_nl_bounds(f, fq_off(rs, crlf, fin, k));
    }
    /// one more record: its output is the next four lines of the input with their original endings
    proof fn lemma_unchanged_step(rs: Seq<FqRec>, crlf: bool, fin: bool, k: int)
        requires fq_fields_ok(rs), 0 <= k < rs.len()
        ensures text(fq_lines(rs), uniform(4 * rs.len(), crlf, fin), true, 4 * k + 4)
                    == text(fq_lines(rs), uniform(4 * rs.len(), crlf, fin), true, 4 * k) + fq_unchanged(rs, crlf, fin, k)
    {
        hide(fq_fields_ok); hide(fq_lines); hide(uniform); hide(text); hide(c4);
        let ls = fq_lines(rs); let cr = uniform(4 * rs.len(), crlf, fin);
        let f = fq_text(rs, crlf, fin);
        let p = fq_off(rs, crlf, fin, k);
        let e = off(ls, cr, fin, 4 * k + 4);
        lemma_fq_extent(rs, crlf, fin, k);
        lemma_text_segment(ls, cr, fin, 4 * k, 4 * k + 4);
        lemma_text_fin(ls, cr, fin, 4 * k);
        lemma_text_fin(ls, cr, fin, 4 * k + 4);
        let t0 = text(ls, cr, fin, 4 * k);
        let c = c4(f, p);
        assert(text(ls, cr, true, 4 * k) == t0);
        assert(text(ls, cr, fin, 4 * k + 4) == t0 + f.subrange(p, e));
        if k + 1 < rs.len() || fin {
            assert(f.subrange(p, e) =~= f.subrange(p, c) + seq![10u8]);
            assert(text(ls, cr, true, 4 * k + 4) == text(ls, cr, fin, 4 * k + 4));
        } else {
            assert(text(ls, cr, true, 4 * k + 4) == text(ls, cr, fin, 4 * k + 4) + seq![10u8]);
            assert(t0 + f.subrange(p, e) + seq![10u8] =~= t0 + (f.subrange(p, c) + seq![10u8]));
        }
    }
    /// the outputs for the first k records are the first 4k lines of the input, each with its original ending
    proof fn lemma_unchanged_prefix(rs: Seq<FqRec>, crlf: bool, fin: bool, k: int)
        requires fq_fields_ok(rs), 0 <= k <= rs.len()
        ensures fq_unchanged_all(rs, crlf, fin, k) == text(fq_lines(rs), uniform(4 * rs.len(), crlf, fin), true, 4 * k)
        decreases k
    {
        if k > 0 {
            lemma_unchanged_prefix(rs, crlf, fin, k - 1);
            lemma_unchanged_step(rs, crlf, fin, k - 1);
        }
    }
    /// C11: the concatenated write_unchanged outputs of all records are the input, with a terminator added after the last line if it had none
    pub proof fn lemma_fastq_unchanged_reproduces_input(rs: Seq<FqRec>, crlf: bool, fin: bool)
        requires fq_fields_ok(rs), rs.len() >= 1
        ensures
            [C11|lemma.fastq_unchanged.reproduces_input] fq_unchanged_all(rs, crlf, fin, rs.len() as int)
                == fq_text(rs, crlf, fin) + (if fin { Seq::<u8>::empty() } else { seq![10u8] }),
    {
        lemma_unchanged_prefix(rs, crlf, fin, rs.len() as int);
        lemma_text_fin(fq_lines(rs), uniform(4 * rs.len(), crlf, fin), fin, 4 * rs.len() as int);
        lemma_fq_line(rs, 0);
    }

    // ---------------------------------------------------------------------------------------------
    // C12 (FASTA): the rule functions read the records back from a text given as lines, for every per-line mixture of LF and
    // CRLF endings, with or without a terminator after the last line
    // ---------------------------------------------------------------------------------------------
    pub open spec fn hdr(l: Seq<u8>) -> bool { l.len() > 0 && l[0] == 62u8 }
    /// lines [i, j) are one record: header at i, no header inside, and j is the end of the text or the next header
    pub open spec fn fa_rec_at(ls: Seq<Seq<u8>>, i: int, j: int) -> bool {
        &&& 0 <= i < j <= ls.len() && hdr(ls[i])
        &&& forall|m: int| i < m < j ==> !hdr(#[trigger] ls[m])
        &&& (j < ls.len() ==> hdr(ls[j]))
    }
    /// offset of the end of line m: its LF, or the end of the text if it has none
    pub open spec fn line_end(ls: Seq<Seq<u8>>, cr: Seq<bool>, fin: bool, m: int) -> int {
        if m + 1 < ls.len() || fin { off(ls, cr, fin, m + 1) - 1 } else { off(ls, cr, fin, m + 1) }
    }
    /// an unterminated last line is not empty (otherwise the text is that of the list without it)
    pub open spec fn fa_text_ok(ls: Seq<Seq<u8>>, cr: Seq<bool>, fin: bool) -> bool {
        lines_ok(ls, cr, fin) && (!fin && ls.len() > 0 ==> ls[ls.len() - 1].len() > 0)
    }

    proof fn lemma_full_len(ls: Seq<Seq<u8>>, cr: Seq<bool>, fin: bool)
        ensures off(ls, cr, fin, ls.len() as int) == full(ls, cr, fin).len()
    { }

    /// scanning for the next record boundary from the start of line m (m is the header line or a later line of the record)
    proof fn lemma_fa_bnd_lines(ls: Seq<Seq<u8>>, cr: Seq<bool>, fin: bool, m: int, j: int)
        requires fa_text_ok(ls, cr, fin), 0 <= m < j <= ls.len(),
                 forall|x: int| m < x < j ==> !hdr(#[trigger] ls[x]), j < ls.len() ==> hdr(ls[j])
        ensures fa_bnd(full(ls, cr, fin), off(ls, cr, fin, m)) == (if j < ls.len() { off(ls, cr, fin, j) } else { full(ls, cr, fin).len() as int })
        decreases j - m
    {
        let f = full(ls, cr, fin);
        lemma_line_rules(ls, cr, fin, m);
        lemma_full_len(ls, cr, fin);
        let k = nl(f, off(ls, cr, fin, m));
        if m + 1 < ls.len() {
            assert(k + 1 == off(ls, cr, fin, m + 1));
            lemma_line_at(ls, cr, fin, m + 1);
            lemma_line_rules(ls, cr, fin, m + 1);
            if m + 1 == j {
                assert(f[k + 1] == 62u8);
            } else {
                // line m+1 is not a header: its first byte, if it has one, is not '>'; an empty line starts with its terminator
                let o = off(ls, cr, fin, m + 1);
                if ls[m + 1].len() > 0 {
                    assert(f[o] == ls[m + 1][0]);
                } else if o < f.len() {
                    assert(f[o] == 13u8 || f[o] == 10u8) by {
                        if cr[m + 1] { assert(f[o + 0] == 13u8); } else { assert(f[off(ls, cr, fin, m + 2) - 1] == 10u8); }
                    }
                }
                if k + 1 < f.len() { lemma_fa_bnd_lines(ls, cr, fin, m + 1, j); }
                else {
                    // an empty, unterminated last line cannot exist (fa_text_ok)
                    lemma_off_step(ls, cr, fin, m + 1);
                    lemma_text_prefix(ls, cr, fin, m + 2, ls.len() as int);
                }
            }
        }
    }

    /// the LFs between the starts of lines i and m are the ends of lines i..m-1 (all of them terminated)
    proof fn lemma_lfs_lines(ls: Seq<Seq<u8>>, cr: Seq<bool>, fin: bool, i: int, m: int)
        requires lines_ok(ls, cr, fin), 0 <= i <= m <= ls.len(), m == ls.len() ==> fin
        ensures lfs(full(ls, cr, fin), off(ls, cr, fin, i), off(ls, cr, fin, m)) == Seq::new((m - i) as nat, |t: int| off(ls, cr, fin, i + t + 1) - 1)
        decreases m - i
    {
        let f = full(ls, cr, fin);
        let want = Seq::new((m - i) as nat, |t: int| off(ls, cr, fin, i + t + 1) - 1);
        if m == i {
            assert(lfs(f, off(ls, cr, fin, i), off(ls, cr, fin, m)) =~= want);
        } else {
            lemma_lfs_lines(ls, cr, fin, i, m - 1);
            lemma_line_rules(ls, cr, fin, m - 1);
            lemma_text_prefix(ls, cr, fin, i, m - 1);
            let (a, b0, b1) = (off(ls, cr, fin, i), off(ls, cr, fin, m - 1), off(ls, cr, fin, m));
            lemma_nl_bounds(f, b0);
            assert(nl(f, b0) == b1 - 1);
            lemma_lfs_skip(f, a, b0, b1 - 1);
            assert(lfs(f, a, b1) == lfs(f, a, b1 - 1).push(b1 - 1));
            assert(lfs(f, a, b1) =~= want);
        }
    }

    /// line ends of the record on lines [i, j)
    proof fn lemma_fa_line_ends(ls: Seq<Seq<u8>>, cr: Seq<bool>, fin: bool, i: int, j: int)
        requires fa_text_ok(ls, cr, fin), fa_rec_at(ls, i, j)
        ensures fa_bnd(full(ls, cr, fin), off(ls, cr, fin, i)) == (if j < ls.len() { off(ls, cr, fin, j) } else { full(ls, cr, fin).len() as int }),
                fa_lines(full(ls, cr, fin), off(ls, cr, fin, i)) == Seq::new((j - i) as nat, |t: int| line_end(ls, cr, fin, i + t)),
    {
        let f = full(ls, cr, fin);
        let p = off(ls, cr, fin, i);
        let n = ls.len() as int;
        lemma_full_len(ls, cr, fin);
        lemma_fa_bnd_lines(ls, cr, fin, i, j);
        let want = Seq::new((j - i) as nat, |t: int| line_end(ls, cr, fin, i + t));
        if j < n {
            lemma_line_rules(ls, cr, fin, j);
            lemma_lfs_lines(ls, cr, fin, i, j);
            assert(fa_lines(f, p) =~= want);
        } else {
            lemma_line_rules(ls, cr, fin, n - 1);
            lemma_line_at(ls, cr, fin, n - 1);
            let o = off(ls, cr, fin, n - 1);
            lemma_text_prefix(ls, cr, fin, i, n - 1);
            lemma_lfs_lines(ls, cr, fin, i, n - 1);
            lemma_nl_bounds(f, o);
            if fin {
                let e = f.len() - 1;
                assert(f[e] == 10u8);
                lemma_lfs_skip(f, p, o, e);
                assert(fa_lines(f, p) =~= want);
            } else {
                let e = f.len() as int;
                assert(f[e - 1] != 10u8) by {
                    let last = ls[n - 1];
                    assert(f.subrange(o, o + last.len())[last.len() - 1] == f[e - 1]);
                }
                lemma_lfs_skip(f, p, o, e);
                assert(fa_lines(f, p) =~= want);
            }
        }
    }

    /// the record on lines [i, j): boundary, line ends, header, sequence lines and line number as the rules give them
    pub proof fn lemma_fasta_text(ls: Seq<Seq<u8>>, cr: Seq<bool>, fin: bool, i: int, j: int)
        requires fa_text_ok(ls, cr, fin), fa_rec_at(ls, i, j)
        ensures
            [C12,C01|lemma.fasta_text.boundary] fa_bnd(full(ls, cr, fin), off(ls, cr, fin, i)) == (if j < ls.len() { off(ls, cr, fin, j) } else { full(ls, cr, fin).len() as int }),
            [C12,C01|lemma.fasta_text.line_ends] fa_lines(full(ls, cr, fin), off(ls, cr, fin, i)) == Seq::new((j - i) as nat, |t: int| line_end(ls, cr, fin, i + t)),
            [C12,C01|lemma.fasta_text.record_is_read_back] fa_rec_head(full(ls, cr, fin), off(ls, cr, fin, i)) == ls[i].subrange(1, ls[i].len() as int)
                && fa_rec_lines(full(ls, cr, fin), off(ls, cr, fin, i)) == ls.subrange(i + 1, j)
                && full(ls, cr, fin)[off(ls, cr, fin, i)] == 62u8,
            [C12,C17|lemma.fasta_text.line_number] true_line(full(ls, cr, fin), off(ls, cr, fin, i)) == i + 1,
    {
        let f = full(ls, cr, fin);
        let p = off(ls, cr, fin, i);
        lemma_fa_line_ends(ls, cr, fin, i, j);
        lemma_line_rules(ls, cr, fin, i);
        // ---- header: the line without '>'
        let l0 = fa_lines(f, p)[0];
        assert(l0 == nl(f, p));
        let raw0 = f.subrange(p, l0);
        assert(raw0[0] == f[p]);
        lemma_trim_drop_first(raw0);
        assert(raw0.subrange(1, raw0.len() as int) =~= f.subrange(p + 1, l0));
        // ---- sequence lines
        assert forall|t: int| 0 <= t < j - i - 1 implies #[trigger] fa_rec_lines(f, p)[t] == ls[i + 1 + t] by {
            lemma_line_rules(ls, cr, fin, i + t);
            lemma_line_rules(ls, cr, fin, i + t + 1);
            assert(fa_lines(f, p)[t] + 1 == off(ls, cr, fin, i + t + 1));
            assert(fa_lines(f, p)[t + 1] == nl(f, off(ls, cr, fin, i + t + 1)));
        }
        assert(fa_rec_lines(f, p) =~= ls.subrange(i + 1, j));
    }

    /// header lines hs[0] < hs[1] < ..: only empty lines before the first, and every line in between belongs to a record
    pub open spec fn fa_recs(ls: Seq<Seq<u8>>, hs: Seq<int>) -> bool {
        &&& hs.len() >= 1 && 0 <= hs[0]
        &&& forall|m: int| 0 <= m < hs[0] ==> (#[trigger] ls[m]).len() == 0
        &&& forall|r: int| 0 <= r < hs.len() ==> fa_rec_at(ls, #[trigger] hs[r], if r + 1 < hs.len() { hs[r + 1] } else { ls.len() as int })
    }

    /// leading blank lines are skipped: the first record starts at the first header line
    proof fn lemma_fnb_lines(ls: Seq<Seq<u8>>, cr: Seq<bool>, fin: bool, m: int, h: int)
        requires lines_ok(ls, cr, fin), 0 <= m <= h < ls.len(), ls[h].len() > 0, forall|x: int| m <= x < h ==> (#[trigger] ls[x]).len() == 0
        ensures first_nonblank(full(ls, cr, fin), off(ls, cr, fin, m)) == off(ls, cr, fin, h)
        decreases h - m
    {
        let f = full(ls, cr, fin);
        let o = off(ls, cr, fin, m);
        lemma_line_rules(ls, cr, fin, m);
        lemma_line_at(ls, cr, fin, h);
        lemma_text_prefix(ls, cr, fin, m, h);
        if m < h {
            assert(blank(f.subrange(o, nl(f, o))));
            lemma_fnb_lines(ls, cr, fin, m + 1, h);
        } else {
            assert(!blank(f.subrange(o, nl(f, o))));
        }
    }

    /// the r-th record of the stream starts at the r-th header line; after the last one the stream ends
    pub proof fn lemma_fasta_stream(ls: Seq<Seq<u8>>, cr: Seq<bool>, fin: bool, hs: Seq<int>, r: int)
        requires fa_text_ok(ls, cr, fin), fa_recs(ls, hs), 0 <= r < hs.len()
        ensures
            [C12,C01|lemma.fasta_stream.first_record] first_nonblank(full(ls, cr, fin), 0) == off(ls, cr, fin, hs[0]),
            [C12,C01|lemma.fasta_stream.record_r] fa_start(full(ls, cr, fin), off(ls, cr, fin, hs[0]), r) == off(ls, cr, fin, hs[r]),
            [C12,C01|lemma.fasta_stream.end] r + 1 == hs.len() ==> fa_start(full(ls, cr, fin), off(ls, cr, fin, hs[0]), r + 1) == full(ls, cr, fin).len(),
        decreases r
    {
        let f = full(ls, cr, fin);
        let p0 = off(ls, cr, fin, hs[0]);
        let n = ls.len() as int;
        assert(fa_rec_at(ls, hs[0], if 1 < hs.len() { hs[1] } else { n }));
        assert(off(ls, cr, fin, 0) == 0);
        lemma_fnb_lines(ls, cr, fin, 0, hs[0]);
        if r > 0 {
            lemma_fasta_stream(ls, cr, fin, hs, r - 1);
            assert(fa_rec_at(ls, hs[r - 1], hs[r]));
            lemma_fa_bnd_lines(ls, cr, fin, hs[r - 1], hs[r]);
            assert(fa_start(f, p0, r) == fa_bnd(f, fa_start(f, p0, r - 1)));
        }
        if r + 1 == hs.len() {
            assert(fa_rec_at(ls, hs[r], n));
            lemma_fa_bnd_lines(ls, cr, fin, hs[r], n);
            assert(fa_start(f, p0, r + 1) == fa_bnd(f, fa_start(f, p0, r)));
        }
    }

    // ---- C11, FASTA counterpart: writing every parsed record unchanged reproduces the input ------------------------------
    /// what fasta write_unchanged appends for the record at p, by its contract: the bytes from '>' to the end of its last line, then
    /// LF unless those bytes already end in LF (which happens exactly when the record ends with an empty line)
    pub open spec fn fa_unchanged(f: Seq<u8>, p: int) -> Seq<u8> {
        let raw = f.subrange(p, fa_lines(f, p).last());
        raw + (if raw.last() != 10u8 { seq![10u8] } else { Seq::<u8>::empty() })
    }
    /// line index just after record r
    pub open spec fn fa_next(ls: Seq<Seq<u8>>, hs: Seq<int>, r: int) -> int { if r + 1 < hs.len() { hs[r + 1] } else { ls.len() as int } }
    pub open spec fn fa_unchanged_all(ls: Seq<Seq<u8>>, cr: Seq<bool>, fin: bool, hs: Seq<int>, k: int) -> Seq<u8>
        decreases k
    {
        if k <= 0 { Seq::<u8>::empty() } else { fa_unchanged_all(ls, cr, fin, hs, k - 1) + fa_unchanged(full(ls, cr, fin), off(ls, cr, fin, hs[k - 1])) }
    }
    /// no record ends with an empty line (such a line is dropped by write_unchanged: the blank-line normalisation of C11)
    pub open spec fn fa_no_blank_ends(ls: Seq<Seq<u8>>, cr: Seq<bool>, hs: Seq<int>) -> bool {
        forall|r: int| 0 <= r < hs.len() ==> (#[trigger] ls[fa_next(ls, hs, r) - 1]).len() > 0 || cr[fa_next(ls, hs, r) - 1]
    }
    /// where the raw extent of the record on lines [i, j) ends, and that it does not end in LF unless its last line is empty
    proof fn lemma_fa_raw_end(ls: Seq<Seq<u8>>, cr: Seq<bool>, fin: bool, i: int, j: int)
        requires fa_text_ok(ls, cr, fin), fa_rec_at(ls, i, j), ls[j - 1].len() > 0 || cr[j - 1]
        ensures ({
            let f = full(ls, cr, fin); let p = off(ls, cr, fin, i); let e = fa_lines(f, p).last(); let oj = off(ls, cr, fin, j);
            &&& 0 <= p < e <= f.len() && oj <= f.len() && f[e - 1] != 10u8
            &&& (j < ls.len() || fin ==> e + 1 == oj && f[e] == 10u8)
            &&& (!(j < ls.len() || fin) ==> e == f.len() && oj == f.len())
        })
    {
        let f = full(ls, cr, fin);
        let p = off(ls, cr, fin, i);
        lemma_fa_line_ends(ls, cr, fin, i, j);
        let e = fa_lines(f, p).last();
        assert(e == line_end(ls, cr, fin, j - 1));
        lemma_line_at(ls, cr, fin, j - 1);
        lemma_line_at(ls, cr, fin, i);
        lemma_line_rules(ls, cr, fin, j - 1);
        lemma_text_prefix(ls, cr, fin, i, j - 1);
        lemma_full_len(ls, cr, fin);
        let o1 = off(ls, cr, fin, j - 1);
        let last = ls[j - 1];
        if cr[j - 1] {
            assert(f[o1 + last.len()] == 13u8);
        } else {
            assert(f.subrange(o1, o1 + last.len())[last.len() - 1] == f[o1 + last.len() - 1]);
        }
    }
    proof fn lemma_fa_unchanged_step(ls: Seq<Seq<u8>>, cr: Seq<bool>, fin: bool, i: int, j: int)
        requires fa_text_ok(ls, cr, fin), fa_rec_at(ls, i, j), ls[j - 1].len() > 0 || cr[j - 1]
        ensures text(ls, cr, true, j) == text(ls, cr, true, i) + fa_unchanged(full(ls, cr, fin), off(ls, cr, fin, i))
    {
        hide(fa_text_ok); hide(text); hide(fa_lines); hide(lines_ok);
        let f = full(ls, cr, fin);
        let p = off(ls, cr, fin, i);
        assert(0 <= i < j <= ls.len());
        lemma_fa_raw_end(ls, cr, fin, i, j);
        lemma_text_segment(ls, cr, fin, i, j);
        lemma_text_fin(ls, cr, fin, i);
        lemma_text_fin(ls, cr, fin, j);
        let e = fa_lines(f, p).last();
        let t0 = text(ls, cr, fin, i);
        let oj = off(ls, cr, fin, j);
        let raw = f.subrange(p, e);
        assert(raw[raw.len() - 1] == f[e - 1]);
        assert(fa_unchanged(f, p) == raw + seq![10u8]);
        assert(text(ls, cr, true, i) == t0);
        if j < ls.len() || fin {
            assert(f.subrange(p, oj) =~= raw + seq![10u8]);
        } else {
            assert(t0 + f.subrange(p, oj) + seq![10u8] =~= t0 + (raw + seq![10u8]));
        }
    }
    pub proof fn lemma_fasta_unchanged_reproduces_input(ls: Seq<Seq<u8>>, cr: Seq<bool>, fin: bool, hs: Seq<int>, k: int)
        requires fa_text_ok(ls, cr, fin), fa_recs(ls, hs), fa_no_blank_ends(ls, cr, hs), hs[0] == 0, 0 <= k <= hs.len()
        ensures
            [C11|lemma.fasta_unchanged.reproduces_input] fa_unchanged_all(ls, cr, fin, hs, k) == text(ls, cr, true, if k < hs.len() { hs[k] } else { ls.len() as int }),
            [C11|lemma.fasta_unchanged.whole_input] k == hs.len() ==> fa_unchanged_all(ls, cr, fin, hs, k)
                == full(ls, cr, fin) + (if fin { Seq::<u8>::empty() } else { seq![10u8] }),
        decreases k
    {
        if k > 0 {
            lemma_fasta_unchanged_reproduces_input(ls, cr, fin, hs, k - 1);
            let (i, j) = (hs[k - 1], fa_next(ls, hs, k - 1));
            assert(fa_rec_at(ls, i, j));
            assert(ls[j - 1].len() > 0 || cr[j - 1]);
            lemma_fa_unchanged_step(ls, cr, fin, i, j);
            assert(j == (if k < hs.len() { hs[k] } else { ls.len() as int }));
        }
        if k == hs.len() { lemma_text_fin(ls, cr, fin, ls.len() as int); }
    }

    /// C12, FASTA, in one statement: two texts of the same lines with different endings are read as the same records at the same lines
    pub proof fn lemma_fasta_endings_agree(ls: Seq<Seq<u8>>, cr1: Seq<bool>, fin1: bool, cr2: Seq<bool>, fin2: bool, hs: Seq<int>, r: int)
        requires fa_text_ok(ls, cr1, fin1), fa_text_ok(ls, cr2, fin2), fa_recs(ls, hs), 0 <= r < hs.len()
        ensures
            [C12|lemma.fasta_endings.same_record] ({
                let (f1, f2) = (full(ls, cr1, fin1), full(ls, cr2, fin2));
                let (p1, p2) = (fa_start(f1, first_nonblank(f1, 0), r), fa_start(f2, first_nonblank(f2, 0), r));
                fa_rec_head(f1, p1) == fa_rec_head(f2, p2) && fa_rec_lines(f1, p1) == fa_rec_lines(f2, p2) && true_line(f1, p1) == true_line(f2, p2)
                && f1[p1] == 62u8 && f2[p2] == 62u8
            }),
    {
        lemma_fasta_stream(ls, cr1, fin1, hs, r);
        lemma_fasta_stream(ls, cr2, fin2, hs, r);
        let j = if r + 1 < hs.len() { hs[r + 1] } else { ls.len() as int };
        lemma_fasta_text(ls, cr1, fin1, hs[r], j);
        lemma_fasta_text(ls, cr2, fin2, hs[r], j);
    }


    // ---------------------------------------------------------------------------------------------
    // C10 (FASTA): what the writer contracts say is written - fa_head_r(h) followed by the sequence on one line or by
    // wrap_lines(seq, w) - is the LF text of a header line plus the sequence lines, record after record, so by
    // lemma_fasta_text it is read back as exactly that header and those lines; wrapped lines have the requested width
    // ---------------------------------------------------------------------------------------------
    /// lines, each followed by LF
    pub open spec fn ltext(ls: Seq<Seq<u8>>, n: int) -> Seq<u8>
        decreases n
    {
        if n <= 0 { Seq::<u8>::empty() } else { ltext(ls, n - 1) + ls[n - 1] + seq![10u8] }
    }
    pub open spec fn falses(n: nat) -> Seq<bool> { Seq::new(n, |i: int| false) }

    proof fn lemma_ltext_is_text(ls: Seq<Seq<u8>>, n: int)
        requires 0 <= n <= ls.len()
        ensures ltext(ls, n) == text(ls, falses(ls.len()), true, n)
        decreases n
    {
        if n > 0 {
            lemma_ltext_is_text(ls, n - 1);
            assert(term(false, true) =~= seq![10u8]);
        }
    }
    proof fn lemma_ltext_prefix(a: Seq<Seq<u8>>, b: Seq<Seq<u8>>, n: int)
        requires 0 <= n <= a.len()
        ensures ltext(a + b, n) == ltext(a, n)
        decreases n
    {
        if n > 0 { lemma_ltext_prefix(a, b, n - 1); assert((a + b)[n - 1] == a[n - 1]); }
    }
    proof fn lemma_ltext_append(a: Seq<Seq<u8>>, b: Seq<Seq<u8>>, n: int)
        requires 0 <= n <= b.len()
        ensures ltext(a + b, a.len() + n) == ltext(a, a.len() as int) + ltext(b, n)
        decreases n
    {
        if n == 0 {
            lemma_ltext_prefix(a, b, a.len() as int);
            assert(ltext(a, a.len() as int) + ltext(b, 0) =~= ltext(a, a.len() as int));
        } else {
            lemma_ltext_append(a, b, n - 1);
            assert((a + b)[a.len() + n - 1] == b[n - 1]);
            assert(ltext(a, a.len() as int) + ltext(b, n - 1) + b[n - 1] + seq![10u8] =~= ltext(a, a.len() as int) + (ltext(b, n - 1) + b[n - 1] + seq![10u8]));
        }
    }

    /// one record as written: header and the sequence lines
    pub struct FaRec { pub head: Seq<u8>, pub body: Seq<Seq<u8>> }
    pub open spec fn fa_lines_of(r: FaRec) -> Seq<Seq<u8>> { seq![seq![62u8] + r.head] + r.body }
    pub open spec fn fa_render_rec(r: FaRec) -> Seq<u8> { fa_head_r(r.head) + ltext(r.body, r.body.len() as int) }
    pub open spec fn fa_all_lines(rs: Seq<FaRec>, n: int) -> Seq<Seq<u8>>
        decreases n
    {
        if n <= 0 { Seq::<Seq<u8>>::empty() } else { fa_all_lines(rs, n - 1) + fa_lines_of(rs[n - 1]) }
    }
    pub open spec fn fa_render_recs(rs: Seq<FaRec>, n: int) -> Seq<u8>
        decreases n
    {
        if n <= 0 { Seq::<u8>::empty() } else { fa_render_recs(rs, n - 1) + fa_render_rec(rs[n - 1]) }
    }
    /// restrictions of the property: header without LF and not ending in CR; sequence lines without LF, not ending in CR, not starting with '>'
    pub open spec fn fa_fields_ok(rs: Seq<FaRec>) -> bool {
        forall|k: int| 0 <= k < rs.len() ==> {
            let r = #[trigger] rs[k];
            &&& (forall|j: int| 0 <= j < r.head.len() ==> r.head[j] != 10u8) && !ends_cr(seq![62u8] + r.head)
            &&& forall|t: int| 0 <= t < r.body.len() ==> !hdr(#[trigger] r.body[t]) && !ends_cr(r.body[t])
                    && (forall|j: int| 0 <= j < r.body[t].len() ==> r.body[t][j] != 10u8)
        }
    }

    proof fn lemma_render_rec_is_ltext(r: FaRec)
        ensures fa_render_rec(r) == ltext(fa_lines_of(r), fa_lines_of(r).len() as int)
    {
        let one = seq![seq![62u8] + r.head];
        assert(ltext(one, 1) =~= fa_head_r(r.head)) by { assert(ltext(one, 0) =~= Seq::<u8>::empty()); }
        lemma_ltext_append(one, r.body, r.body.len() as int);
    }
    proof fn lemma_render_recs_is_ltext(rs: Seq<FaRec>, n: int)
        requires 0 <= n <= rs.len()
        ensures fa_render_recs(rs, n) == ltext(fa_all_lines(rs, n), fa_all_lines(rs, n).len() as int)
        decreases n
    {
        if n > 0 {
            lemma_render_recs_is_ltext(rs, n - 1);
            lemma_render_rec_is_ltext(rs[n - 1]);
            let (a, b) = (fa_all_lines(rs, n - 1), fa_lines_of(rs[n - 1]));
            lemma_ltext_append(a, b, b.len() as int);
        }
    }
    /// lines of the first n records: the first m records' lines are a prefix
    proof fn lemma_all_lines_prefix(rs: Seq<FaRec>, m: int, n: int)
        requires 0 <= m <= n <= rs.len()
        ensures fa_all_lines(rs, m).len() <= fa_all_lines(rs, n).len(),
                fa_all_lines(rs, n).subrange(0, fa_all_lines(rs, m).len() as int) == fa_all_lines(rs, m)
        decreases n - m
    {
        if m < n {
            lemma_all_lines_prefix(rs, m, n - 1);
            let (a, b) = (fa_all_lines(rs, n - 1), fa_lines_of(rs[n - 1]));
            assert((a + b).subrange(0, fa_all_lines(rs, m).len() as int) =~= a.subrange(0, fa_all_lines(rs, m).len() as int));
        } else {
            assert(fa_all_lines(rs, n).subrange(0, fa_all_lines(rs, m).len() as int) =~= fa_all_lines(rs, m));
        }
    }
    /// where record k sits in the line list of all records, and that it is a record there
    proof fn lemma_rec_in_all_lines(rs: Seq<FaRec>, k: int)
        requires fa_fields_ok(rs), 0 <= k < rs.len()
        ensures ({
            let ls = fa_all_lines(rs, rs.len() as int); let (i, j) = (fa_all_lines(rs, k).len() as int, fa_all_lines(rs, k + 1).len() as int);
            &&& j == i + 1 + rs[k].body.len() && j <= ls.len() && ls[i] == seq![62u8] + rs[k].head && ls.subrange(i + 1, j) == rs[k].body
            &&& fa_rec_at(ls, i, j)
        })
    {
        let n = rs.len() as int;
        let ls = fa_all_lines(rs, n);
        let (i, j) = (fa_all_lines(rs, k).len() as int, fa_all_lines(rs, k + 1).len() as int);
        lemma_all_lines_prefix(rs, k + 1, n);
        let a = fa_all_lines(rs, k); let b = fa_lines_of(rs[k]);
        assert(fa_all_lines(rs, k + 1) == a + b);
        assert forall|x: int| 0 <= x < b.len() implies ls[i + x] == b[x] by {
            assert(ls.subrange(0, j)[i + x] == ls[i + x]);
            assert((a + b)[i + x] == b[x]);
        }
        assert(b[0] == seq![62u8] + rs[k].head);
        assert(ls.subrange(i + 1, j) =~= rs[k].body) by {
            assert forall|x: int| 0 <= x < rs[k].body.len() implies ls.subrange(i + 1, j)[x] == rs[k].body[x] by { assert(b[x + 1] == rs[k].body[x]); }
        }
        assert(hdr(ls[i])) by { assert(ls[i][0] == 62u8); }
        assert forall|m: int| i < m < j implies !hdr(#[trigger] ls[m]) by { assert(ls[m] == b[m - i]); assert(b[m - i] == rs[k].body[m - i - 1]); }
        if j < ls.len() {
            lemma_all_lines_prefix(rs, k + 2, n);
            let b2 = fa_lines_of(rs[k + 1]);
            assert(fa_all_lines(rs, k + 2) == fa_all_lines(rs, k + 1) + b2);
            assert(ls.subrange(0, fa_all_lines(rs, k + 2).len() as int)[j] == ls[j]);
            assert((fa_all_lines(rs, k + 1) + b2)[j] == b2[0]);
            assert(b2[0][0] == 62u8);
        } else if k + 1 < n {
            lemma_all_lines_prefix(rs, k + 2, n);
            assert(fa_all_lines(rs, k + 2) == fa_all_lines(rs, k + 1) + fa_lines_of(rs[k + 1]));
        }
    }
    proof fn lemma_all_lines_ok(rs: Seq<FaRec>)
        requires fa_fields_ok(rs)
        ensures fa_text_ok(fa_all_lines(rs, rs.len() as int), falses(fa_all_lines(rs, rs.len() as int).len()), true)
    {
        let ls = fa_all_lines(rs, rs.len() as int);
        lemma_lines_of_all(rs, rs.len() as int);
    }
    /// every line of the list is a header line or a body line of some record
    proof fn lemma_lines_of_all(rs: Seq<FaRec>, n: int)
        requires fa_fields_ok(rs), 0 <= n <= rs.len()
        ensures forall|x: int| 0 <= x < fa_all_lines(rs, n).len() ==> {
                    let l = #[trigger] fa_all_lines(rs, n)[x];
                    (forall|j: int| 0 <= j < l.len() ==> l[j] != 10u8) && (l.len() > 0 ==> l[l.len() - 1] != 13u8)
                }
        decreases n
    {
        if n > 0 {
            lemma_lines_of_all(rs, n - 1);
            let (a, b) = (fa_all_lines(rs, n - 1), fa_lines_of(rs[n - 1]));
            let r = rs[n - 1];
            assert forall|x: int| 0 <= x < (a + b).len() implies ({
                    let l = #[trigger] (a + b)[x];
                    (forall|j: int| 0 <= j < l.len() ==> l[j] != 10u8) && (l.len() > 0 ==> l[l.len() - 1] != 13u8)
                }) by {
                if x >= a.len() {
                    let y = x - a.len();
                    assert((a + b)[x] == b[y]);
                    if y == 0 {
                        let l = seq![62u8] + r.head;
                        assert forall|j: int| 0 <= j < l.len() implies l[j] != 10u8 by { if j > 0 { assert(l[j] == r.head[j - 1]); } }
                    } else {
                        assert(b[y] == r.body[y - 1]);
                    }
                } else { assert((a + b)[x] == a[x]); }
            }
        }
    }

    /// header line index of record r in the line list of all records
    pub open spec fn fa_hs(rs: Seq<FaRec>) -> Seq<int> { Seq::new(rs.len(), |r: int| fa_all_lines(rs, r).len() as int) }
    proof fn lemma_hs_ok(rs: Seq<FaRec>)
        requires fa_fields_ok(rs), rs.len() >= 1
        ensures fa_recs(fa_all_lines(rs, rs.len() as int), fa_hs(rs))
    {
        let ls = fa_all_lines(rs, rs.len() as int);
        let hs = fa_hs(rs);
        assert forall|r: int| 0 <= r < hs.len() implies fa_rec_at(ls, #[trigger] hs[r], if r + 1 < hs.len() { hs[r + 1] } else { ls.len() as int }) by {
            lemma_rec_in_all_lines(rs, r);
        }
        assert(hs[0] == 0);
    }
    proof fn lemma_render_is_full(rs: Seq<FaRec>)
        ensures fa_render_recs(rs, rs.len() as int) == full(fa_all_lines(rs, rs.len() as int), falses(fa_all_lines(rs, rs.len() as int).len()), true)
    {
        let ls = fa_all_lines(rs, rs.len() as int);
        lemma_render_recs_is_ltext(rs, rs.len() as int);
        lemma_ltext_is_text(ls, ls.len() as int);
    }

    /// written records are read back: the k-th record of the rendered text has exactly the header and the sequence lines written
    pub proof fn lemma_fasta_roundtrip(rs: Seq<FaRec>, k: int)
        requires fa_fields_ok(rs), 0 <= k < rs.len()
        ensures
            [C10|lemma.fasta_roundtrip] ({
                let f = fa_render_recs(rs, rs.len() as int); let p = fa_start(f, first_nonblank(f, 0), k);
                f[p] == 62u8 && fa_rec_head(f, p) == rs[k].head && fa_rec_lines(f, p) == rs[k].body
                && (k + 1 == rs.len() ==> fa_bnd(f, p) == f.len())
            }),
    {
        hide(fa_fields_ok); hide(fa_recs); hide(fa_rec_at); hide(fa_text_ok);
        let n = rs.len() as int;
        let ls = fa_all_lines(rs, n);
        let cr = falses(ls.len());
        let hs = fa_hs(rs);
        lemma_render_is_full(rs);
        lemma_all_lines_ok(rs);
        lemma_hs_ok(rs);
        lemma_rec_in_all_lines(rs, k);

        lemma_fasta_stream(ls, cr, true, hs, k);
        lemma_rec_in_all_lines(rs, k);
        let j = fa_all_lines(rs, k + 1).len() as int;
        assert(hs[k] == fa_all_lines(rs, k).len());
        lemma_fasta_text(ls, cr, true, hs[k], j);
        assert((seq![62u8] + rs[k].head).subrange(1, rs[k].head.len() as int + 1) =~= rs[k].head);
    }

    // ---- the two shapes of sequence lines the writers produce ------------------------------------------------------------
    /// the sequence cut into pieces of w bytes (the last one 1..=w bytes); no piece for an empty sequence
    pub open spec fn chunks(sq: Seq<u8>, w: int) -> Seq<Seq<u8>>
        decreases sq.len()
    {
        if w <= 0 || sq.len() == 0 { Seq::<Seq<u8>>::empty() }
        else if sq.len() <= w { seq![sq] }
        else { seq![sq.subrange(0, w)] + chunks(sq.subrange(w, sq.len() as int), w) }
    }
    proof fn lemma_ltext_cons(x: Seq<u8>, rest: Seq<Seq<u8>>)
        ensures ltext(seq![x] + rest, rest.len() as int + 1) == x + seq![10u8] + ltext(rest, rest.len() as int)
    {
        let one = seq![x];
        lemma_ltext_append(one, rest, rest.len() as int);
        assert(ltext(one, 1) =~= x + seq![10u8]) by { assert(ltext(one, 0) =~= Seq::<u8>::empty()); }
    }
    /// wrapped output = the chunks as lines; they concatenate to the sequence and have the requested widths
    pub proof fn lemma_wrap_is_chunks(sq: Seq<u8>, w: int)
        requires w >= 1
        ensures
            [C10|lemma.wrap.lines_are_chunks] wrap_lines(sq, w) == ltext(chunks(sq, w), chunks(sq, w).len() as int),
            [C10|lemma.wrap.chunks_concatenate_to_the_sequence] concat(chunks(sq, w)) == sq,
            [C10|lemma.wrap.widths] forall|i: int| 0 <= i < chunks(sq, w).len() ==> 1 <= (#[trigger] chunks(sq, w)[i]).len() <= w
                && (i + 1 < chunks(sq, w).len() ==> chunks(sq, w)[i].len() == w),
        decreases sq.len()
    {
        let c = chunks(sq, w);
        if sq.len() == 0 {
            assert(concat(c) =~= sq);
        } else if sq.len() <= w {
            assert(ltext(c, 1) =~= sq + seq![10u8]) by { assert(ltext(c, 0) =~= Seq::<u8>::empty()); }
            assert(concat(c) =~= sq) by { assert(c.drop_last() =~= Seq::<Seq<u8>>::empty()); assert(concat(c.drop_last()) =~= Seq::<u8>::empty()); }
        } else {
            let (x, rest) = (sq.subrange(0, w), sq.subrange(w, sq.len() as int));
            lemma_wrap_is_chunks(rest, w);
            let cr = chunks(rest, w);
            lemma_ltext_cons(x, cr);
            lemma_concat_cons(x, cr);
            assert(x + rest =~= sq);
            assert forall|i: int| 0 <= i < c.len() implies 1 <= (#[trigger] c[i]).len() <= w && (i + 1 < c.len() ==> c[i].len() == w) by {
                if i > 0 { assert(c[i] == cr[i - 1]); }
            }
            assert(cr.len() >= 1);
        }
    }
    proof fn lemma_concat_cons(x: Seq<u8>, rest: Seq<Seq<u8>>)
        ensures concat(seq![x] + rest) == x + concat(rest)
        decreases rest.len()
    {
        let all = seq![x] + rest;
        if rest.len() == 0 {
            assert(all.drop_last() =~= Seq::<Seq<u8>>::empty());
            assert(concat(all) =~= x + concat(rest));
        } else {
            assert(all.drop_last() =~= seq![x] + rest.drop_last());
            lemma_concat_cons(x, rest.drop_last());
            assert(all.last() == rest.last());
            assert(concat(rest) == concat(rest.drop_last()) + rest.last());
            assert(concat(all) == concat(all.drop_last()) + all.last());
            assert(concat(all) =~= x + concat(rest));
        }
    }
    /// fa_render / fa_head_r + wrap_lines are renderings of a header plus lines
    pub proof fn lemma_render_shapes(h: Seq<u8>, sq: Seq<u8>, w: int)
        requires w >= 1
        ensures
            [C10|lemma.render.plain_is_one_line] fa_render(h, sq) == fa_render_rec(FaRec { head: h, body: seq![sq] }),
            [C10|lemma.render.wrapped_is_chunk_lines] fa_head_r(h) + wrap_lines(sq, w) == fa_render_rec(FaRec { head: h, body: chunks(sq, w) }),
    {
        let one = seq![sq];
        assert(ltext(one, 1) =~= sq + seq![10u8]) by { assert(ltext(one, 0) =~= Seq::<u8>::empty()); }
        assert(fa_render(h, sq) =~= fa_head_r(h) + (sq + seq![10u8]));
        lemma_wrap_is_chunks(sq, w);
    }


    // ---------------------------------------------------------------------------------------------
    // C04: reading a records and then b records is reading a + b records.  Every read operation's contract moves the cursor along
    // gstart / fa_start (next: one step; record-set reads: k steps; owned iterators: one step), so any interleaving of them walks
    // one and the same stream: nothing is lost, duplicated or reordered at the switches.
    // ---------------------------------------------------------------------------------------------
    pub proof fn lemma_fastq_stream_composes(f: Seq<u8>, p: int, a: int, b: int)
        requires a >= 0, b >= 0
        ensures
            [C04|lemma.fastq_stream_composes] gstart(f, gstart(f, p, a), b) == gstart(f, p, a + b),
        decreases b
    {
        if b > 0 {
            lemma_fastq_stream_composes(f, p, a, b - 1);
            assert(gstart(f, gstart(f, p, a), b) == c4(f, gstart(f, gstart(f, p, a), b - 1)) + 1);
            assert(gstart(f, p, a + b) == c4(f, gstart(f, p, a + b - 1)) + 1);
        }
    }
    pub proof fn lemma_fasta_stream_composes(f: Seq<u8>, p: int, a: int, b: int)
        requires a >= 0, b >= 0
        ensures
            [C04|lemma.fasta_stream_composes] fa_start(f, fa_start(f, p, a), b) == fa_start(f, p, a + b),
        decreases b
    {
        if b > 0 {
            lemma_fasta_stream_composes(f, p, a, b - 1);
            assert(fa_start(f, fa_start(f, p, a), b) == fa_bnd(f, fa_start(f, fa_start(f, p, a), b - 1)));
            assert(fa_start(f, p, a + b) == fa_bnd(f, fa_start(f, p, a + b - 1)));
        }
    }

    } // verus!
}
