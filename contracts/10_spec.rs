// =====================================================================================================
// /verif/contracts/10_spec.rs — specification functions and lemmas shared by both formats (DESIGN 3.3)
// =====================================================================================================
pub mod spec {
    use vstd::prelude::*;
    verus! {

    pub const LF: u8 = 10u8;
    pub const CR: u8 = 13u8;

    /// first index >= i holding LF, else |f|
    pub open spec fn nl(f: Seq<u8>, i: int) -> int
        decreases f.len() - i
    {
        if i < 0 || i >= f.len() { f.len() as int } else if f[i] == 10u8 { i } else { nl(f, i + 1) }
    }

    pub proof fn lemma_nl_bounds(f: Seq<u8>, i: int)
        requires 0 <= i <= f.len()
        ensures i <= nl(f, i) <= f.len(),
                nl(f, i) < f.len() ==> f[nl(f, i)] == 10u8,
                forall|j: int| i <= j < nl(f, i) ==> f[j] != 10u8,
        decreases f.len() - i
    {
        if i < f.len() && f[i] != 10u8 { lemma_nl_bounds(f, i + 1); }
    }

    /// characterisation: if k is the first LF at or after i (or |f|) then nl == k
    pub proof fn lemma_nl_is(f: Seq<u8>, i: int, k: int)
        requires 0 <= i <= k <= f.len(), forall|j: int| i <= j < k ==> f[j] != 10u8, k < f.len() ==> f[k] == 10u8,
        ensures nl(f, i) == k
        decreases k - i
    {
        if i < k { lemma_nl_is(f, i + 1, k); }
    }

    /// nl only looks at the bytes from i on: it commutes with taking a window [a, b) that contains the answer
    pub proof fn lemma_nl_window(f: Seq<u8>, a: int, b: int, i: int)
        requires 0 <= a <= i <= b <= f.len()
        ensures ({ let w = f.subrange(a, b); let k = nl(w, i - a);
                   &&& (k < w.len() ==> nl(f, i) == a + k)
                   &&& (k == w.len() ==> nl(f, i) >= b) })
    {
        let w = f.subrange(a, b);
        lemma_nl_bounds(w, i - a);
        lemma_nl_bounds(f, i);
        let k = nl(w, i - a);
        assert forall|j: int| i <= j < a + k implies f[j] != 10u8 by { assert(w[j - a] == f[j]); }
        if k < w.len() {
            assert(w[k] == f[a + k]);
            lemma_nl_is(f, i, a + k);
        } else {
            if nl(f, i) < b { assert(w[nl(f, i) - a] == f[nl(f, i)]); }
        }
    }

    /// number of LF in f[0..i)
    pub open spec fn count_lf(f: Seq<u8>, i: int) -> int
        decreases i
    {
        if i <= 0 { 0 } else { count_lf(f, i - 1) + if i <= f.len() && f[i - 1] == 10u8 { 1int } else { 0int } }
    }

    /// 1-based line number of the byte at offset i
    pub open spec fn true_line(f: Seq<u8>, i: int) -> int { 1 + count_lf(f, i) }

    pub proof fn lemma_count_lf_mono(f: Seq<u8>, i: int, j: int)
        requires 0 <= i <= j
        ensures count_lf(f, i) <= count_lf(f, j) <= count_lf(f, i) + (j - i)
        decreases j - i
    {
        if i < j { lemma_count_lf_mono(f, i, j - 1); }
    }

    /// no LF in [i, j)  ==> same count
    pub proof fn lemma_count_lf_skip(f: Seq<u8>, i: int, j: int)
        requires 0 <= i <= j <= f.len(), forall|k: int| i <= k < j ==> f[k] != 10u8
        ensures count_lf(f, j) == count_lf(f, i)
        decreases j - i
    {
        if i < j { lemma_count_lf_skip(f, i, j - 1); }
    }

    /// crossing one line: from i to nl(f,i)+1 adds exactly one
    pub proof fn lemma_count_lf_line(f: Seq<u8>, i: int)
        requires 0 <= i <= f.len(), nl(f, i) < f.len()
        ensures count_lf(f, nl(f, i) + 1) == count_lf(f, i) + 1
    {
        lemma_nl_bounds(f, i);
        lemma_count_lf_skip(f, i, nl(f, i));
    }

    /// s without one trailing CR
    pub open spec fn trim(s: Seq<u8>) -> Seq<u8> {
        if s.len() > 0 && s[s.len() - 1] == 13u8 { s.subrange(0, s.len() - 1) } else { s }
    }

    /// empty or a lone CR
    pub open spec fn blank(s: Seq<u8>) -> bool { trim(s).len() == 0 }

    /// first index >= i holding byte b, else |s|
    pub open spec fn first_of(s: Seq<u8>, b: u8, i: int) -> int
        decreases s.len() - i
    {
        if i < 0 || i >= s.len() { s.len() as int } else if s[i] == b { i } else { first_of(s, b, i + 1) }
    }

    pub proof fn lemma_first_of_bounds(s: Seq<u8>, b: u8, i: int)
        requires 0 <= i <= s.len()
        ensures i <= first_of(s, b, i) <= s.len(),
                first_of(s, b, i) < s.len() ==> s[first_of(s, b, i)] == b,
                forall|j: int| i <= j < first_of(s, b, i) ==> s[j] != b,
        decreases s.len() - i
    {
        if i < s.len() && s[i] != b { lemma_first_of_bounds(s, b, i + 1); }
    }

    /// header up to the first space
    pub open spec fn id_of(h: Seq<u8>) -> Seq<u8> { h.subrange(0, first_of(h, 32u8, 0)) }
    /// the rest after the first space, if there is a space
    pub open spec fn desc_of(h: Seq<u8>) -> Option<Seq<u8>> {
        let k = first_of(h, 32u8, 0);
        if k < h.len() { Some(h.subrange(k + 1, h.len() as int)) } else { None }
    }

    } // verus!
}
