// =====================================================================================================
// /verif/contracts/15_stdspecs.rs — T4: assumed specifications of std items that vstd does not cover
// =====================================================================================================
pub mod stdspecs {
    use vstd::prelude::*;
    use std::borrow::Cow;
    use std::alloc::Allocator;
    use vstd::std_specs::cmp::*;
    use super::spec::*;
    verus! {

    // ---- `impl<T> From<T> for T` is the identity (used by the crate's try_opt! macro) ----------------------
    pub assume_specification<T>[ <T as core::convert::From<T>>::from ](t: T) -> (r: T)
        ensures r == t;

    // ---- <[u8]>::to_vec copies the bytes ---------------------------------------------------------------------
    pub assume_specification<T: Clone>[ <[T]>::to_vec ](s: &[T]) -> (r: Vec<T>)
        ensures r@.len() == s@.len(), forall|i: int| 0 <= i < s@.len() ==> cloned::<T>(s@[i], #[trigger] r@[i]);
    pub assume_specification<T: Clone>[ <[T] as std::borrow::ToOwned>::to_owned ](s: &[T]) -> (r: Vec<T>)
        ensures r@.len() == s@.len(), forall|i: int| 0 <= i < s@.len() ==> cloned::<T>(s@[i], #[trigger] r@[i]);
    pub assume_specification<T>[ bool::then_some::<T> ](b: bool, t: T) -> (r: Option<T>)
        ensures r == (if b { Some(t) } else { None });
    pub broadcast proof fn lemma_u8_cloned_eq(a: u8, b: u8)
        requires #[trigger] cloned::<u8>(a, b)
        ensures a == b
    {}

    // ---- Vec::extend from a shared slice / vector copies the elements -------------------------------------------
    /// the values an `IntoIterator<Item = &T>` yields, in order
    pub uninterp spec fn ref_items<'a, T: 'a, I: IntoIterator<Item = &'a T>>(it: I) -> Seq<T>;
    pub assume_specification<'a, T: Copy + 'a, A: Allocator, I: IntoIterator<Item = &'a T>>[ <Vec<T, A> as Extend<&'a T>>::extend::<I> ](v: &mut Vec<T, A>, it: I)
        ensures final(v)@ == old(v)@ + ref_items::<T, I>(it);
    pub broadcast axiom fn axiom_ref_items_slice<'a, T>(s: &'a [T])
        ensures #[trigger] ref_items::<T, &'a [T]>(s) == s@;
    pub broadcast axiom fn axiom_ref_items_vec<'a, T>(s: &'a Vec<T>)
        ensures #[trigger] ref_items::<T, &'a Vec<T>>(s) == s@;

    // ---- Cow<[u8]> from a borrowed slice / an owned vector ------------------------------------------------------
    pub uninterp spec fn cow_bytes<T: Clone>(c: Cow<'_, [T]>) -> Seq<T>;
    pub uninterp spec fn cow_borrowed<T: Clone>(c: Cow<'_, [T]>) -> bool;
    pub assume_specification<'a, T: Clone>[ <Cow<'a, [T]> as From<&'a [T]>>::from ](s: &'a [T]) -> (r: Cow<'a, [T]>)
        ensures cow_bytes(r) == s@, cow_borrowed(r);
    pub assume_specification<'a, T: Clone>[ <Cow<'a, [T]> as From<Vec<T>>>::from ](v: Vec<T>) -> (r: Cow<'a, [T]>)
        ensures cow_bytes(r) == v@, !cow_borrowed(r);

    // ---- String::from_utf8_lossy / Cow<str> -> String ------------------------------------------------
    /// String::from_utf8_lossy as an uninterpreted function of the bytes
    pub uninterp spec fn lossy(b: Seq<u8>) -> Seq<char>;
    pub uninterp spec fn cow_str_view(c: Cow<'_, str>) -> Seq<char>;
    pub assume_specification[ String::from_utf8_lossy ](v: &[u8]) -> (r: Cow<'_, str>)
        ensures cow_str_view(r) == lossy(v@);
    pub assume_specification<'a>[ <String as From<Cow<'a, str>>>::from ](c: Cow<'a, str>) -> (r: String)
        ensures r@ == cow_str_view(c);

    // ---- <[T]>::split(pred) and its iterator -------------------------------------------------------------
    #[verifier::external_type_specification]
    #[verifier::external_body]
    #[verifier::accept_recursive_types(T)]
    #[verifier::accept_recursive_types(P)]
    pub struct ExSplit<'a, T: 'a, P: FnMut(&T) -> bool>(core::slice::Split<'a, T, P>);

    /// elements not yet handed out
    pub uninterp spec fn split_rest<'a, T, P: FnMut(&T) -> bool>(s: &core::slice::Split<'a, T, P>) -> Seq<T>;
    pub uninterp spec fn split_done<'a, T, P: FnMut(&T) -> bool>(s: &core::slice::Split<'a, T, P>) -> bool;
    pub uninterp spec fn split_pred<'a, T, P: FnMut(&T) -> bool>(s: &core::slice::Split<'a, T, P>) -> P;

    /// `piece` is what one step of Split yields from `s`: the predicate said "no" on every element of the piece
    /// and "yes" on the element that follows it (if any)
    pub open spec fn split_step<T, P: FnMut(&T) -> bool>(p: P, s: Seq<T>, k: int) -> bool {
        &&& 0 <= k <= s.len()
        &&& forall|j: int| 0 <= j < k ==> call_ensures(p, (&#[trigger] s[j],), false)
        &&& (k < s.len() ==> call_ensures(p, (&s[k],), true))
    }

    pub assume_specification<T, F: FnMut(&T) -> bool> [ <[T]>::split ] (s: &[T], pred: F) -> (r: core::slice::Split<'_, T, F>)
        ensures split_rest(&r) == s@, !split_done(&r), split_pred(&r) == pred;

    pub assume_specification<'a, T, P: FnMut(&T) -> bool> [ <core::slice::Split<'a, T, P> as Iterator>::next ] (it: &mut core::slice::Split<'a, T, P>) -> (r: Option<&'a [T]>)
        ensures
            split_pred(final(it)) == split_pred(old(it)),
            split_done(old(it)) ==> r is None && split_done(final(it)),
            !split_done(old(it)) ==> ({
                let s = split_rest(old(it));
                &&& r is Some
                &&& split_step(split_pred(old(it)), s, r.unwrap()@.len() as int)
                &&& r.unwrap()@ == s.subrange(0, r.unwrap()@.len() as int)
                &&& (r.unwrap()@.len() < s.len() ==> !split_done(final(it)) && split_rest(final(it)) == s.subrange(r.unwrap()@.len() as int + 1, s.len() as int))
                &&& (r.unwrap()@.len() == s.len() ==> split_done(final(it)))
            });

    // ---- <[T]>::chunks(n) and its iterator ------------------------------------------------------------------
    #[verifier::external_type_specification]
    #[verifier::external_body]
    #[verifier::accept_recursive_types(T)]
    pub struct ExChunks<'a, T: 'a>(core::slice::Chunks<'a, T>);
    pub uninterp spec fn chunks_rest<'a, T>(c: &core::slice::Chunks<'a, T>) -> Seq<T>;
    pub uninterp spec fn chunks_size<'a, T>(c: &core::slice::Chunks<'a, T>) -> nat;
    pub assume_specification<T>[ <[T]>::chunks ](s: &[T], chunk_size: usize) -> (r: core::slice::Chunks<'_, T>)
        requires chunk_size > 0
        ensures chunks_rest(&r) == s@, chunks_size(&r) == chunk_size;
    pub assume_specification<'a, T>[ <core::slice::Chunks<'a, T> as Iterator>::next ](it: &mut core::slice::Chunks<'a, T>) -> (r: Option<&'a [T]>)
        ensures
            chunks_size(final(it)) == chunks_size(old(it)),
            chunks_rest(old(it)).len() == 0 ==> r is None && chunks_rest(final(it)).len() == 0,
            chunks_rest(old(it)).len() > 0 ==> ({
                let s = chunks_rest(old(it));
                let k = if s.len() <= chunks_size(old(it)) { s.len() as int } else { chunks_size(old(it)) as int };
                &&& r is Some && r.unwrap()@ == s.subrange(0, k)
                &&& chunks_rest(final(it)) == s.subrange(k, s.len() as int)
            });

    /// a byte predicate closure that decides `x == c`
    pub open spec fn decides_eq<P: FnMut(&u8) -> bool>(p: P, c: u8) -> bool {
        forall|x: u8, r: bool| #[trigger] call_ensures(p, (&x,), r) ==> r == (x == c)
    }

    // ---- core::mem::take: the old value is returned, the place holds whatever T::default() may return ----------
    pub assume_specification<T: Default>[ core::mem::take::<T> ](dest: &mut T) -> (r: T)
        ensures r == *old(dest), call_ensures(T::default, (), *final(dest));

    // ---- Vec::shrink_to_fit: contents unchanged -----------------------------------------------------------------
    pub assume_specification<T, A: core::alloc::Allocator>[ Vec::<T, A>::shrink_to_fit ](v: &mut Vec<T, A>)
        ensures final(v)@ == old(v)@;

    // ---- core::str::from_utf8 ---------------------------------------------------------------------------------
    #[verifier::external_type_specification]
    #[verifier::external_body]
    pub struct ExUtf8Error(core::str::Utf8Error);
    /// UTF-8 well-formedness of a byte string, and the bytes of a `str` (both uninterpreted: nothing is claimed about the encoding itself)
    pub uninterp spec fn valid_utf8(b: Seq<u8>) -> bool;
    pub uninterp spec fn str_bytes(s: &str) -> Seq<u8>;
    pub assume_specification [ core::str::from_utf8 ] (v: &[u8]) -> (r: Result<&str, core::str::Utf8Error>)
        ensures
            r is Ok <==> valid_utf8(v@),
            r matches Ok(s) ==> str_bytes(s) == v@;

    // ---- <[T]>::splitn(n, pred): Split plus a countdown (core::slice::iter::GenericSplitN) --------------------
    #[verifier::external_type_specification]
    #[verifier::external_body]
    #[verifier::accept_recursive_types(T)]
    #[verifier::accept_recursive_types(P)]
    pub struct ExSplitN<'a, T: 'a, P: FnMut(&T) -> bool>(core::slice::SplitN<'a, T, P>);

    pub uninterp spec fn splitn_rest<'a, T, P: FnMut(&T) -> bool>(s: &core::slice::SplitN<'a, T, P>) -> Seq<T>;
    pub uninterp spec fn splitn_done<'a, T, P: FnMut(&T) -> bool>(s: &core::slice::SplitN<'a, T, P>) -> bool;
    pub uninterp spec fn splitn_pred<'a, T, P: FnMut(&T) -> bool>(s: &core::slice::SplitN<'a, T, P>) -> P;
    pub uninterp spec fn splitn_count<'a, T, P: FnMut(&T) -> bool>(s: &core::slice::SplitN<'a, T, P>) -> nat;

    pub assume_specification<T, F: FnMut(&T) -> bool> [ <[T]>::splitn ] (s: &[T], n: usize, pred: F) -> (r: core::slice::SplitN<'_, T, F>)
        ensures splitn_rest(&r) == s@, !splitn_done(&r), splitn_pred(&r) == pred, splitn_count(&r) == n as nat;

    /// count 0: None; count 1: the whole rest; otherwise one Split step
    pub assume_specification<'a, T, P: FnMut(&T) -> bool> [ <core::slice::SplitN<'a, T, P> as Iterator>::next ] (it: &mut core::slice::SplitN<'a, T, P>) -> (r: Option<&'a [T]>)
        ensures
            splitn_pred(final(it)) == splitn_pred(old(it)),
            splitn_count(final(it)) == (if splitn_count(old(it)) == 0 { 0nat } else { (splitn_count(old(it)) - 1) as nat }),
            splitn_count(old(it)) == 0 ==> r is None && splitn_done(final(it)) == splitn_done(old(it)) && splitn_rest(final(it)) == splitn_rest(old(it)),
            splitn_count(old(it)) > 0 && splitn_done(old(it)) ==> r is None && splitn_done(final(it)),
            splitn_count(old(it)) == 1 && !splitn_done(old(it)) ==> r is Some && r.unwrap()@ == splitn_rest(old(it)) && splitn_done(final(it)),
            splitn_count(old(it)) > 1 && !splitn_done(old(it)) ==> ({
                let s = splitn_rest(old(it));
                &&& r is Some
                &&& split_step(splitn_pred(old(it)), s, r.unwrap()@.len() as int)
                &&& r.unwrap()@ == s.subrange(0, r.unwrap()@.len() as int)
                &&& (r.unwrap()@.len() < s.len() ==> !splitn_done(final(it)) && splitn_rest(final(it)) == s.subrange(r.unwrap()@.len() as int + 1, s.len() as int))
                &&& (r.unwrap()@.len() == s.len() ==> splitn_done(final(it)))
            });

    // ---- Option<&T>::copied, core::mem::replace, <[T]>::to_owned --------------------------------------------------------
    pub assume_specification<'a, T: Copy>[ Option::<&'a T>::copied ](o: Option<&'a T>) -> (r: Option<T>)
        ensures o is None ==> r is None, o matches Some(x) ==> r == Some(*x);
    pub assume_specification<T>[ core::mem::replace::<T> ](dest: &mut T, src: T) -> (r: T)
        ensures r == *old(dest), *final(dest) == src;

    // ---- core::cmp::min / max (the method forms Ord::min / Ord::max have vstd specifications) -----------------------
    pub assume_specification<T: Ord> [ core::cmp::min ] (a: T, b: T) -> (r: T)
        ensures
            a.cmp_spec(&b) != core::cmp::Ordering::Greater ==> r == a,
            a.cmp_spec(&b) == core::cmp::Ordering::Greater ==> r == b,
    ;
    pub assume_specification<T: Ord> [ core::cmp::max ] (a: T, b: T) -> (r: T)
        ensures
            a.cmp_spec(&b) == core::cmp::Ordering::Greater ==> r == a,
            a.cmp_spec(&b) != core::cmp::Ordering::Greater ==> r == b,
    ;

    // ---- str::splitn(n, c) with an ASCII char separator ---------------------------------------------------------
    // str::splitn is generic over the unstable `Pattern` trait, whose generic associated type Verus cannot declare, so the call is
    // redirected (rule R19) to this wrapper, whose body is the call itself.  Splitting a str at an ASCII char is splitting its
    // bytes at that byte (no byte of a multi-byte UTF-8 sequence is below 128).  Trusted like the T4 specifications.
    #[verifier::external_body]
    pub struct VxStrSplitN<'a>(core::str::SplitN<'a, char>);

    impl<'a> VxStrSplitN<'a> {
        pub uninterp spec fn rest(&self) -> Seq<u8>;
        pub uninterp spec fn done(&self) -> bool;
        pub uninterp spec fn count(&self) -> nat;
        pub uninterp spec fn sep(&self) -> u8;

        /// count 0: None; count 1: the whole rest; otherwise the piece before the first separator
        #[verifier::external_body]
        pub fn next(&mut self) -> (r: Option<&'a str>)
            ensures
                final(self).sep() == old(self).sep(),
                final(self).count() == (if old(self).count() == 0 { 0nat } else { (old(self).count() - 1) as nat }),
                old(self).count() == 0 ==> r is None && final(self).done() == old(self).done() && final(self).rest() == old(self).rest(),
                old(self).count() > 0 && old(self).done() ==> r is None && final(self).done(),
                old(self).count() == 1 && !old(self).done() ==> r is Some && str_bytes(r.unwrap()) == old(self).rest() && final(self).done(),
                old(self).count() > 1 && !old(self).done() ==> ({
                    let s = old(self).rest();
                    let k = first_of(s, old(self).sep(), 0);
                    &&& r is Some
                    &&& str_bytes(r.unwrap()) == s.subrange(0, k)
                    &&& (k < s.len() ==> !final(self).done() && final(self).rest() == s.subrange(k + 1, s.len() as int))
                    &&& (k >= s.len() ==> final(self).done())
                }),
        { self.0.next() }
    }

    #[verifier::external_body]
    pub fn vx_str_splitn<'a>(s: &'a str, n: usize, c: char) -> (r: VxStrSplitN<'a>)
        requires (c as u32) < 128,
        ensures r.rest() == str_bytes(s), !r.done(), r.count() == n as nat, r.sep() as u32 == c as u32,
    { VxStrSplitN(s.splitn(n, c)) }

    /// with such a predicate, one split step cuts at the first occurrence of c
    pub proof fn lemma_split_step_first_of<P: FnMut(&u8) -> bool>(p: P, c: u8, s: Seq<u8>, k: int)
        requires decides_eq(p, c), split_step(p, s, k)
        ensures k == first_of(s, c, 0)
    {
        assert forall|j: int| 0 <= j < k implies s[j] != c by {
            assert(call_ensures(p, (&s[j],), false));
        }
        lemma_first_of_is(s, c, 0, k);
    }

    /// broadcast form, for call chains where the predicate closure has no name
    pub broadcast proof fn lemma_split_cut<P: FnMut(&u8) -> bool>(p: P, s: Seq<u8>, k: int)
        requires #[trigger] split_step(p, s, k)
        ensures forall|c: u8| #![trigger decides_eq(p, c)] #![trigger first_of(s, c, 0)] decides_eq(p, c) ==> k == first_of(s, c, 0)
    {
        assert forall|c: u8| decides_eq(p, c) implies k == first_of(s, c, 0) by { lemma_split_step_first_of(p, c, s, k); }
    }

    /// element-wise form: no quantified hypothesis about the closure has to be established by the solver
    pub broadcast proof fn lemma_split_cut2<P: FnMut(&u8) -> bool>(p: P, s: Seq<u8>, k: int, c: u8)
        requires #[trigger] split_step(p, s, k), forall|j: int| 0 <= j < k ==> s[j] != c, k < s.len() ==> s[k] == c
        ensures #[trigger] first_of(s, c, 0) == k
    { lemma_first_of_is(s, c, 0, k); }

    pub proof fn lemma_first_of_is(s: Seq<u8>, c: u8, i: int, k: int)
        requires 0 <= i <= k <= s.len(), forall|j: int| i <= j < k ==> s[j] != c, k < s.len() ==> s[k] == c,
        ensures first_of(s, c, i) == k
        decreases k - i
    {
        if i < k { lemma_first_of_is(s, c, i + 1, k); }
    }

    /// first_of(LF) is nl
    pub proof fn lemma_first_of_lf_is_nl(s: Seq<u8>, i: int)
        requires 0 <= i <= s.len()
        ensures first_of(s, 10u8, i) == nl(s, i)
        decreases s.len() - i
    {
        if i < s.len() && s[i] != 10u8 { lemma_first_of_lf_is_nl(s, i + 1); }
    }

    } // verus!
}
