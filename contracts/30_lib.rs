// =====================================================================================================
// /verif/contracts/30_lib.rs — src/lib.rs under contract: fill_buf (C14, C03, C06), trim_cr (C12), macros
// =====================================================================================================
pub mod lib_ {
    use vstd::prelude::*;
    use super::io;
    use super::buffer_redux;
    use super::spec::*;
    verus! {

    /// T4: <[T]>::split_last
    pub assume_specification<T>[ <[T]>::split_last ](s: &[T]) -> (r: Option<(&T, &[T])>)
        ensures
            s@.len() == 0 ==> r is None,
            s@.len() > 0 ==> r is Some && *r.unwrap().0 == s@[s@.len() - 1] && r.unwrap().1@ == s@.subrange(0, s@.len() - 1),
    ;

//@fn lib::trim_cr ret=r tags=C12,C13,C06,C01,C02 vis=pub
//@spec
        ensures
            [C01,C02,C12,C13|trim_cr.removes_one_trailing_cr] r@ == trim(line@),
//@end

//@fn lib::fill_buf ret=res tags=C14,C03,C06 vis=pub
//@local initial_size ord=0 kind=let
//@local num_read ord=1 kind=letmut
//@spec
    requires
        old(reader).wf(),
    ensures
        [C01,C02,C03,C04,C06,C14|fill_buf.frame] final(reader).wf() && final(reader).head() == old(reader).head()
            && final(reader).file() == old(reader).file() && final(reader).base() == old(reader).base()
            && final(reader).cap() == old(reader).cap(),
        [C01,C02,C03,C04,C06,C14|fill_buf.prefix_kept] final(reader).buf().len() >= old(reader).buf().len()
            && final(reader).buf().subrange(0, old(reader).buf().len() as int) == old(reader).buf(),
        [C01,C02,C03,C04,C06,C14|fill_buf.ok_full_or_eof] res matches Ok(n) ==>
            n == final(reader).buf().len() - old(reader).buf().len()
            && (final(reader).head() + final(reader).buf().len() == final(reader).cap() || final(reader).at_eof()),
        [C01,C02,C03,C04,C06,C14|fill_buf.ok_no_error_raised] res is Ok ==> final(reader).errs() == old(reader).errs(),
        [C01,C02,C03,C04,C06,C14|fill_buf.err_is_source_error] res matches Err(e) ==>
            e.k != io::ErrorKind::Interrupted && final(reader).errs() == old(reader).errs().push(e),
//@loop 0 kw=while
        invariant
            [C01,C02,C03,C04,C06,C14|fill_buf.inv.frame] reader.wf() && reader.head() == old(reader).head() && reader.file() == old(reader).file()
                && reader.base() == old(reader).base() && reader.cap() == old(reader).cap(),
            [C01,C02,C03,C04,C06,C14|fill_buf.inv.errs] reader.errs() == old(reader).errs(),
            [C01,C02,C03,C04,C06,C14|fill_buf.inv.progress] initial_size == old(reader).buf().len()
                && reader.buf().len() == initial_size + num_read
                && reader.buf().subrange(0, initial_size as int) == old(reader).buf(),
        ensures
            [C01,C02,C03,C04,C06,C14|fill_buf.loop_exit_full_or_eof] reader.head() + reader.buf().len() == reader.cap() || reader.at_eof(),
        decreases reader.interrupts_left(), reader.cap() - reader.buf().len(),
//@end

    } // verus!
}
